import RedisEmu.Bits
import RedisEmu.Arity
/-
  Connection sessions, the database table, argument parsing per command, the
  MULTI queue and the dispatcher (`cmdDispatcher.prepare/dispatchHandler`,
  `redisTransaction.go`, `clientState.go`, `dataStoreSet.go`).
-/
namespace RedisEmu

/-- parsed command; parsing = what the grammar-driven argument parser decides,
    i.e. what is checked *before* a command is queued in MULTI -/
inductive Cmd where
  | set (k v : Bytes) (o : SetOpts) (isSetnx : Bool)
  | append (k v : Bytes)
  | get (k : Bytes) | getdel (k : Bytes) | getex (k : Bytes) (e : Option ExpArg)
  | strlen (k : Bytes) | getrange (k : Bytes) (s e : Int) | setrange (k : Bytes) (off : Int) (v : Bytes)
  | incrby (k : Bytes) (d : Int) | decrby (k : Bytes) (d : Int) | incrbyfloat (k d : Bytes)
  | mget (ks : List Bytes) | mset (kvs : List (Bytes × Bytes)) (nx : Bool)
  | lcsLen (a b : Bytes)
  | push (k : Bytes) (vs : List Bytes) (left x : Bool)
  | pop (k : Bytes) (count : Option Int) (left : Bool)
  | llen (k : Bytes) | lindex (k : Bytes) (i : Int) | lrange (k : Bytes) (s e : Int)
  | lset (k : Bytes) (i : Int) (v : Bytes) | linsert (k : Bytes) (before : Bool) (p v : Bytes)
  | lrem (k : Bytes) (n : Int) (v : Bytes) | ltrim (k : Bytes) (s e : Int)
  | lpos (k v : Bytes) (rank count maxlen : Option Int)
  | lmove (s d : Bytes) (sl dl : Bool)
  | lmpop (numkeys : Int) (ks : List Bytes) (left : Bool) (count : Option Int)
  | bpop (ks : List Bytes) (left : Bool)                     -- BLPOP/BRPOP, timeout elided
  | hset (k : Bytes) (fvs : List (Bytes × Bytes)) (nx replyOk : Bool)
  | hget (k f : Bytes) | hmget (k : Bytes) (fs : List Bytes) | hgetall (k : Bytes)
  | hkeys (k : Bytes) (vals : Bool) | hlen (k : Bytes) | hexists (k f : Bytes) | hstrlen (k f : Bytes)
  | hdel (k : Bytes) (fs : List Bytes) | hincrby (k f : Bytes) (d : Int) | hincrbyfloat (k f d : Bytes)
  | hrandfield (k : Bytes) (count : Option Int) (withValues : Bool)
  | sadd (k : Bytes) (ms : List Bytes) | srem (k : Bytes) (ms : List Bytes) | scard (k : Bytes)
  | sismember (k m : Bytes) | smismember (k : Bytes) (ms : List Bytes) | smembers (k : Bytes)
  | smove (s d m : Bytes) | salg (op : SetOp) (ks : List Bytes) | salgStore (op : SetOp) (d : Bytes) (ks : List Bytes)
  | sintercard (n : Int) (ks : List Bytes) (limit : Int)
  | srandmember (k : Bytes) (count : Option Int)
  | del (ks : List Bytes) (reclaim : Bool) | exists_ (ks : List Bytes) | type_ (k : Bytes) | touch (ks : List Bytes)
  | rename (s d : Bytes) (nx : Bool) | copy (s d : Bytes) (replace : Bool) (db : Bool)
  | keys (pat : Bytes) | randomkey | dbsize
  | sort (k : Bytes) (by_ : Option Bytes) (limit : Option (Int × Int)) (gets : List Bytes) (desc alpha : Bool) (store : Option Bytes)
  | expire (k : Bytes) (n : Int) (unit : Nat) (abs : Bool) (opt : ExpireOpt)  -- unit: ns per unit
  | persist (k : Bytes) | ttl (k : Bytes) (kind : TtlKind)
  | scan (kind : Nat) (k : Bytes) (cursor : Int) (pat : Option Bytes) (count : Option Int) (ty : Option Bytes)
  | getbit (k : Bytes) (off : Int) | setbit (k : Bytes) (off v : Int)
  | bitcount (k : Bytes) (range : Option (Int × Int × Bool))
  | bitpos (k : Bytes) (bit : Int) (start : Option Int) (stop : Option (Int × Bool))
  | bitop (op : Bytes) (d : Bytes) (ks : List Bytes)
  | bitfield (k : Bytes) (ops : List BfOp) (ro : Bool)
  | select (i : Int) | flushdb | flushall
  | multi | exec | discard | watch (ks : List Bytes) | unwatch
  | ping (m : Option Bytes) | echo (m : Bytes) | quit
  | hello (ver : Option Int)
  | clientId | clientGetname | clientSetname (n : Bytes) | clientInfo | clientList
  | opaque (name : String)        -- accepted by the emulator, not modelled: reply unchecked, assumed read-only
  deriving Repr, Inhabited

/-! ### argument parsing helpers -/

def int? (b : Bytes) : Option Int := parseInt64 b

structure SortOpts where
  by_ : Option Bytes := none
  limit : Option (Int × Int) := none
  gets : List Bytes := []
  order : Option Bool := none      -- some true = DESC
  alpha : Bool := false
  store : Option Bytes := none
  inGets : Bool := false           -- the previous option was a GET
  getsDone : Bool := false         -- a run of GET options has ended

def SortOpts.desc (o : SortOpts) : Bool := o.order.getD false

/-- the options of SORT: any order, each at most once except GET, whose repetitions have to follow one
    another (the grammar-driven argument parser reads `GET pattern [GET pattern …]` as one clause) -/
def parseSortOpts : List Bytes → SortOpts → Option SortOpts
  | [], o => some o
  | t :: r, o =>
    let u := lowerB t
    let o := if u != sb "get" && o.inGets then { o with inGets := false, getsDone := true } else o
    if u == sb "by" then
      match r with
      | p :: r' => if o.by_.isSome then none else parseSortOpts r' { o with by_ := some p }
      | [] => none
    else if u == sb "limit" then
      match r with
      | a :: b :: r' =>
        match parseInt64 a, parseInt64 b with
        | some x, some y => if o.limit.isSome then none else parseSortOpts r' { o with limit := some (x, y) }
        | _, _ => none
      | _ => none
    else if u == sb "get" then
      match r with
      | p :: r' => if o.getsDone then none else parseSortOpts r' { o with gets := o.gets ++ [p], inGets := true }
      | [] => none
    else if u == sb "asc" then (if o.order.isSome then none else parseSortOpts r { o with order := some false })
    else if u == sb "desc" then (if o.order.isSome then none else parseSortOpts r { o with order := some true })
    else if u == sb "alpha" then (if o.alpha then none else parseSortOpts r { o with alpha := true })
    else if u == sb "store" then
      match r with
      | d :: r' => if o.store.isSome then none else parseSortOpts r' { o with store := some d }
      | [] => none
    else none

/-- options `TOKEN [value]*`, each at most once, any order. `spec`: (token, number of values) -/
def parseOpts (spec : List (Bytes × Nat)) : List Bytes → List (Bytes × List Bytes) → Option (List (Bytes × List Bytes))
  | [], acc => some acc
  | t :: r, acc =>
    let u := lowerB t
    match spec.find? (·.1 == u) with
    | none => none
    | some (_, n) =>
      if (acc.find? (·.1 == u)).isSome then none
      else if r.length < n then none
      else parseOpts spec (r.drop n) (acc ++ [(u, r.take n)])
termination_by l => l.length
decreasing_by simp [List.length_drop]; omega

def optVal (o : List (Bytes × List Bytes)) (t : String) : Option Bytes :=
  match o.find? (·.1 == sb t) with
  | some (_, v :: _) => some v
  | _ => none

def optHas (o : List (Bytes × List Bytes)) (t : String) : Bool := (o.find? (·.1 == sb t)).isSome

/-- optional integer option: outer none = malformed -/
def optInt (o : List (Bytes × List Bytes)) (t : String) : Option (Option Int) :=
  match optVal o t with
  | none => some none
  | some v => match int? v with
    | some i => some (some i)
    | none => none

def pairsOf : List Bytes → Option (List (Bytes × Bytes))
  | [] => some []
  | [_] => none
  | a :: b :: r => (pairsOf r).map ((a, b) :: ·)

def parseExpArg (args : List Bytes) (allowKeep allowPersist : Bool) : Option (Option ExpArg) :=
  match args with
  | [] => some none
  | [t] =>
    let u := lowerB t
    if allowKeep && u == sb "keepttl" then some (some .keepttl)
    else if allowPersist && u == sb "persist" then some (some .persist)
    else none
  | [t, n] =>
    match int? n with
    | none => none
    | some i =>
      let u := lowerB t
      if u == sb "ex" then some (some (.ex i)) else if u == sb "px" then some (some (.px i))
      else if u == sb "exat" then some (some (.exat i)) else if u == sb "pxat" then some (some (.pxat i))
      else none
  | _ => none

def leftRight (b : Bytes) : Option Bool :=
  let u := lowerB b
  if u == sb "left" then some true else if u == sb "right" then some false else none

/-- a decimal the emulator's `toFloat` accepts; only plain decimals are generated -/
def isFloatArg (b : Bytes) : Bool := (parseDecimal b).isSome

def ttlOpt (r : List Bytes) : Option ExpireOpt :=
  match r with
  | [] => some .none
  | [o] =>
    let u := lowerB o
    if u == sb "nx" then some .nx else if u == sb "xx" then some .xx
    else if u == sb "gt" then some .gt else if u == sb "lt" then some .lt else none
  | _ => none

def parseBfOps : List Bytes → OverflowMode → List BfOp → Option (List BfOp)
  | [], _, acc => some acc.reverse
  | t :: r, ov, acc =>
    let u := lowerB t
    if u == sb "overflow" then
      match r with
      | m :: r' =>
        let mu := lowerB m
        -- OVERFLOW must be followed by a write operation
        let isWrite := match r' with | w :: _ => lowerB w == sb "set" || lowerB w == sb "incrby" | [] => false
        if !isWrite then none
        else if mu == sb "wrap" then parseBfOps r' .wrap acc
        else if mu == sb "sat" then parseBfOps r' .sat acc
        else if mu == sb "fail" then parseBfOps r' .fail acc
        else none
      | [] => none
    else if u == sb "get" then
      match r with
      | enc :: off :: r' => parseBfOps r' ov ({ kind := .get, enc := enc, off := off, value := [], ov := ov } :: acc)
      | _ => none
    else if u == sb "set" || u == sb "incrby" then
      match r with
      | enc :: off :: v :: r' =>
        parseBfOps r' ov ({ kind := if u == sb "set" then .set else .incrby, enc := enc, off := off, value := v, ov := ov } :: acc)
      | _ => none
    else none
termination_by l => l.length
decreasing_by all_goals simp_all <;> omega

def errArity (name : Bytes) : Value :=
  .error (sb "ERR Incorrect or wrong number of arguments for '" ++ name ++ sb "'. Try COMMAND HELP.")

/-- `numkeys key [key …] LEFT|RIGHT [COUNT n]` (LMPOP, and BLMPOP after its timeout) -/
def parseLmpop (a : List Bytes) : Option Cmd :=
  match a with
  | nk :: r => do
    let nk ← int? nk
    -- keys run up to the LEFT|RIGHT token
    let ks := r.takeWhile fun x => (leftRight x).isNone
    let rest := r.drop ks.length
    match rest with
    | w :: tail =>
      let left ← leftRight w
      if ks.isEmpty then none else
      match tail with
      | [] => pure (.lmpop nk ks left none)
      | [t, c] => if lowerB t == sb "count" then (int? c).map fun c => .lmpop nk ks left (some c) else none
      | _ => none
    | [] => none
  | _ => none

/-- grammar-level parse. `none` = the emulator answers the arity/syntax error. -/
def parseCmd (name : Bytes) (a : List Bytes) : Option Cmd :=
  let n := lowerB name
  if n == sb "set" then
    match a with
    | k :: v :: r => (parseSetOpts r {}).map fun o => .set k v o false
    | _ => none
  else if n == sb "setnx" then (match a with | [k, v] => some (.set k v {} true) | _ => none)
  else if n == sb "setex" then
    (match a with | [k, s, v] => (int? s).map fun i => .set k v { exp := some (.ex i) } false | _ => none)
  else if n == sb "psetex" then
    (match a with | [k, s, v] => (int? s).map fun i => .set k v { exp := some (.px i) } false | _ => none)
  else if n == sb "getset" then (match a with | [k, v] => some (.set k v { get := true } false) | _ => none)
  else if n == sb "append" then (match a with | [k, v] => some (.append k v) | _ => none)
  else if n == sb "get" then (match a with | [k] => some (.get k) | _ => none)
  else if n == sb "getdel" then (match a with | [k] => some (.getdel k) | _ => none)
  else if n == sb "getex" then
    (match a with | k :: r => (parseExpArg r false true).map fun e => .getex k e | _ => none)
  else if n == sb "strlen" then (match a with | [k] => some (.strlen k) | _ => none)
  else if n == sb "getrange" || n == sb "substr" then
    (match a with | [k, s, e] => (do let s ← int? s; let e ← int? e; pure (.getrange k s e)) | _ => none)
  else if n == sb "setrange" then
    (match a with | [k, o, v] => (int? o).map fun o => .setrange k o v | _ => none)
  else if n == sb "incr" then (match a with | [k] => some (.incrby k 1) | _ => none)
  else if n == sb "decr" then (match a with | [k] => some (.incrby k (-1)) | _ => none)
  else if n == sb "incrby" then (match a with | [k, d] => (int? d).map fun d => .incrby k d | _ => none)
  else if n == sb "decrby" then (match a with | [k, d] => (int? d).map fun d => .decrby k d | _ => none)
  else if n == sb "incrbyfloat" then
    (match a with | [k, d] => if isFloatArg d then some (.incrbyfloat k d) else none | _ => none)
  else if n == sb "mget" then (match a with | [] => none | ks => some (.mget ks))
  else if n == sb "mset" || n == sb "msetnx" then
    (match a with | [] => none | _ => (pairsOf a).map fun kvs => .mset kvs (n == sb "msetnx"))
  else if n == sb "lcs" then
    (match a with | [x, y, t] => if lowerB t == sb "len" then some (.lcsLen x y) else some (.opaque "lcs")
                  | _ :: _ :: _ => some (.opaque "lcs") | _ => none)
  else if n == sb "lpush" || n == sb "rpush" || n == sb "lpushx" || n == sb "rpushx" then
    (match a with
     | k :: v :: vs => some (.push k (v :: vs) (n == sb "lpush" || n == sb "lpushx") (n == sb "lpushx" || n == sb "rpushx"))
     | _ => none)
  else if n == sb "lpop" || n == sb "rpop" then
    (match a with
     | [k] => some (.pop k none (n == sb "lpop"))
     | [k, c] => (int? c).map fun c => .pop k (some c) (n == sb "lpop")
     | _ => none)
  else if n == sb "llen" then (match a with | [k] => some (.llen k) | _ => none)
  else if n == sb "lindex" then (match a with | [k, i] => (int? i).map fun i => .lindex k i | _ => none)
  else if n == sb "lrange" then
    (match a with | [k, s, e] => (do let s ← int? s; let e ← int? e; pure (.lrange k s e)) | _ => none)
  else if n == sb "lset" then (match a with | [k, i, v] => (int? i).map fun i => .lset k i v | _ => none)
  else if n == sb "linsert" then
    (match a with
     | [k, w, p, v] =>
       let u := lowerB w
       if u == sb "before" then some (.linsert k true p v) else if u == sb "after" then some (.linsert k false p v) else none
     | _ => none)
  else if n == sb "lrem" then (match a with | [k, c, v] => (int? c).map fun c => .lrem k c v | _ => none)
  else if n == sb "ltrim" then
    (match a with | [k, s, e] => (do let s ← int? s; let e ← int? e; pure (.ltrim k s e)) | _ => none)
  else if n == sb "sort" then
    (match a with
     | k :: r => (parseSortOpts r {}).map fun o => .sort k o.by_ o.limit o.gets o.desc o.alpha o.store
     | _ => none)
  else if n == sb "lpos" then
    (match a with
     | k :: v :: r => do
       let o ← parseOpts [(sb "rank", 1), (sb "count", 1), (sb "maxlen", 1)] r []
       let rank ← optInt o "rank"; let cnt ← optInt o "count"; let ml ← optInt o "maxlen"
       pure (.lpos k v rank cnt ml)
     | _ => none)
  else if n == sb "lmove" then
    (match a with
     | [s, d, x, y] => (do let x ← leftRight x; let y ← leftRight y; pure (.lmove s d x y))
     | _ => none)
  else if n == sb "rpoplpush" then (match a with | [s, d] => some (.lmove s d false true) | _ => none)
  else if n == sb "lmpop" then parseLmpop a
  else if n == sb "hset" || n == sb "hmset" then
    (match a with
     | k :: f :: v :: r => (pairsOf (f :: v :: r)).map fun fvs => .hset k fvs false (n == sb "hmset")
     | _ => none)
  else if n == sb "hsetnx" then (match a with | [k, f, v] => some (.hset k [(f, v)] true false) | _ => none)
  else if n == sb "hget" then (match a with | [k, f] => some (.hget k f) | _ => none)
  else if n == sb "hmget" then (match a with | k :: f :: fs => some (.hmget k (f :: fs)) | _ => none)
  else if n == sb "hgetall" then (match a with | [k] => some (.hgetall k) | _ => none)
  else if n == sb "hkeys" then (match a with | [k] => some (.hkeys k false) | _ => none)
  else if n == sb "hvals" then (match a with | [k] => some (.hkeys k true) | _ => none)
  else if n == sb "hlen" then (match a with | [k] => some (.hlen k) | _ => none)
  else if n == sb "hexists" then (match a with | [k, f] => some (.hexists k f) | _ => none)
  else if n == sb "hstrlen" then (match a with | [k, f] => some (.hstrlen k f) | _ => none)
  else if n == sb "hdel" then (match a with | k :: f :: fs => some (.hdel k (f :: fs)) | _ => none)
  else if n == sb "hincrby" then (match a with | [k, f, d] => (int? d).map fun d => .hincrby k f d | _ => none)
  else if n == sb "hincrbyfloat" then
    (match a with | [k, f, d] => if isFloatArg d then some (.hincrbyfloat k f d) else none | _ => none)
  else if n == sb "hrandfield" then
    (match a with
     | [k] => some (.hrandfield k none false)
     | [k, c] => (int? c).map fun c => .hrandfield k (some c) false
     | [k, c, w] => if lowerB w == sb "withvalues" then (int? c).map fun c => .hrandfield k (some c) true else none
     | _ => none)
  else if n == sb "sadd" then (match a with | k :: m :: ms => some (.sadd k (m :: ms)) | _ => none)
  else if n == sb "srem" then (match a with | k :: m :: ms => some (.srem k (m :: ms)) | _ => none)
  else if n == sb "scard" then (match a with | [k] => some (.scard k) | _ => none)
  else if n == sb "sismember" then (match a with | [k, m] => some (.sismember k m) | _ => none)
  else if n == sb "smismember" then (match a with | k :: m :: ms => some (.smismember k (m :: ms)) | _ => none)
  else if n == sb "smembers" then (match a with | [k] => some (.smembers k) | _ => none)
  else if n == sb "smove" then (match a with | [s, d, m] => some (.smove s d m) | _ => none)
  else if n == sb "sinter" then (match a with | [] => none | ks => some (.salg .inter ks))
  else if n == sb "sunion" then (match a with | [] => none | ks => some (.salg .union ks))
  else if n == sb "sdiff" then (match a with | [] => none | ks => some (.salg .diff ks))
  else if n == sb "sinterstore" then (match a with | d :: k :: ks => some (.salgStore .inter d (k :: ks)) | _ => none)
  else if n == sb "sunionstore" then (match a with | d :: k :: ks => some (.salgStore .union d (k :: ks)) | _ => none)
  else if n == sb "sdiffstore" then (match a with | d :: k :: ks => some (.salgStore .diff d (k :: ks)) | _ => none)
  else if n == sb "sintercard" then
    (match a with
     | nk :: k :: r => do
       let nk ← int? nk
       let all := k :: r
       -- The grammar-driven argument parser takes a trailing `LIMIT <integer>` for the option even when
       -- numkeys would make the two words keys (Redis would not); otherwise the first numkeys words
       -- are keys, whatever they spell, and nothing may follow them.
       let m := all.length
       let lim? : Option Int :=
         if m ≥ 3 && lowerB (all.getD (m - 2) []) == sb "limit" then int? (all.getD (m - 1) []) else none
       match lim? with
       | some lim => pure (.sintercard nk (all.take (m - 2)) lim)
       | none =>
         if 0 < nk && nk.toNat < m then none        -- words after the keys that are no LIMIT clause
         else pure (.sintercard nk all 0)
     | _ => none)
  else if n == sb "srandmember" then
    (match a with
     | [k] => some (.srandmember k none)
     | [k, c] => (int? c).map fun c => .srandmember k (some c)
     | _ => none)
  else if n == sb "del" then (match a with | [] => none | ks => some (.del ks true))
  else if n == sb "unlink" then (match a with | [] => none | ks => some (.del ks false))
  else if n == sb "exists" then (match a with | [] => none | ks => some (.exists_ ks))
  else if n == sb "touch" then (match a with | [] => none | ks => some (.touch ks))
  else if n == sb "type" then (match a with | [k] => some (.type_ k) | _ => none)
  else if n == sb "rename" then (match a with | [s, d] => some (.rename s d false) | _ => none)
  else if n == sb "renamenx" then (match a with | [s, d] => some (.rename s d true) | _ => none)
  else if n == sb "copy" then
    (match a with
     | s :: d :: r => do
       let o ← parseOpts [(sb "db", 1), (sb "replace", 0)] r []
       let dbi ← optInt o "db"
       pure (.copy s d (optHas o "replace") dbi.isSome)
     | _ => none)
  else if n == sb "keys" then (match a with | [p] => some (.keys p) | _ => none)
  else if n == sb "randomkey" then (match a with | [] => some .randomkey | _ => none)
  else if n == sb "dbsize" then (match a with | [] => some .dbsize | _ => none)
  else if n == sb "expire" then
    (match a with | k :: s :: r => (do let s ← int? s; let o ← ttlOpt r; pure (.expire k s 1000000000 false o)) | _ => none)
  else if n == sb "pexpire" then
    (match a with | k :: s :: r => (do let s ← int? s; let o ← ttlOpt r; pure (.expire k s 1000000 false o)) | _ => none)
  else if n == sb "expireat" then
    (match a with | k :: s :: r => (do let s ← int? s; let o ← ttlOpt r; pure (.expire k s 1000000000 true o)) | _ => none)
  else if n == sb "pexpireat" then
    (match a with | k :: s :: r => (do let s ← int? s; let o ← ttlOpt r; pure (.expire k s 1000000 true o)) | _ => none)
  else if n == sb "persist" then (match a with | [k] => some (.persist k) | _ => none)
  else if n == sb "ttl" then (match a with | [k] => some (.ttl k .ttl) | _ => none)
  else if n == sb "pttl" then (match a with | [k] => some (.ttl k .pttl) | _ => none)
  else if n == sb "expiretime" then (match a with | [k] => some (.ttl k .expiretime) | _ => none)
  else if n == sb "pexpiretime" then (match a with | [k] => some (.ttl k .pexpiretime) | _ => none)
  else if n == sb "scan" then
    (match a with
     | cur :: r => do
       let cur ← int? cur
       let o ← parseOpts [(sb "match", 1), (sb "count", 1), (sb "type", 1)] r []
       let cnt ← optInt o "count"
       pure (.scan 0 [] cur (optVal o "match") cnt (optVal o "type"))
     | _ => none)
  else if n == sb "hscan" || n == sb "sscan" then
    (match a with
     | k :: cur :: r => do
       let cur ← int? cur
       let o ← parseOpts [(sb "match", 1), (sb "count", 1)] r []
       let cnt ← optInt o "count"
       pure (.scan (if n == sb "hscan" then 1 else 2) k cur (optVal o "match") cnt none)
     | _ => none)
  else if n == sb "getbit" then (match a with | [k, o] => (int? o).map fun o => .getbit k o | _ => none)
  else if n == sb "setbit" then
    (match a with | [k, o, v] => (do let o ← int? o; let v ← int? v; pure (.setbit k o v)) | _ => none)
  else if n == sb "bitcount" then
    (match a with
     | [k] => some (.bitcount k none)
     | [k, s, e] => (do let s ← int? s; let e ← int? e; pure (.bitcount k (some (s, e, false))))
     | [k, s, e, u] => do
       let s ← int? s; let e ← int? e
       let u := lowerB u
       if u == sb "bit" then pure (.bitcount k (some (s, e, true)))
       else if u == sb "byte" then pure (.bitcount k (some (s, e, false))) else none
     | _ => none)
  else if n == sb "bitpos" then
    (match a with
     | [k, b] => (int? b).map fun b => .bitpos k b none none
     | [k, b, s] => (do let b ← int? b; let s ← int? s; pure (.bitpos k b (some s) none))
     | [k, b, s, e] => (do let b ← int? b; let s ← int? s; let e ← int? e; pure (.bitpos k b (some s) (some (e, false))))
     | [k, b, s, e, u] => do
       let b ← int? b; let s ← int? s; let e ← int? e
       let u := lowerB u
       if u == sb "bit" then pure (.bitpos k b (some s) (some (e, true)))
       else if u == sb "byte" then pure (.bitpos k b (some s) (some (e, false))) else none
     | _ => none)
  else if n == sb "bitop" then
    (match a with
     | op :: d :: k :: ks =>
       let u := lowerB op
       if u == sb "and" || u == sb "or" || u == sb "xor" || u == sb "not" then some (.bitop u d (k :: ks)) else none
     | _ => none)
  else if n == sb "bitfield" || n == sb "bitfield_ro" then
    (match a with
     | k :: r => (parseBfOps r .wrap []).bind fun ops =>
        if n == sb "bitfield_ro" && ops.any (·.kind != .get) then none else some (.bitfield k ops (n == sb "bitfield_ro"))
     | _ => none)
  else if n == sb "select" then (match a with | [i] => (int? i).map .select | _ => none)
  else if n == sb "flushdb" || n == sb "flushall" then
    let mode? := match a with
      | [] => true
      | [m] => lowerB m == sb "async" || lowerB m == sb "sync"
      | _ => false
    if mode? then some (if n == sb "flushdb" then .flushdb else .flushall) else none
  else if n == sb "multi" then (match a with | [] => some .multi | _ => none)
  else if n == sb "exec" then (match a with | [] => some .exec | _ => none)
  else if n == sb "discard" then (match a with | [] => some .discard | _ => none)
  else if n == sb "watch" then (match a with | [] => none | ks => some (.watch ks))
  else if n == sb "unwatch" then (match a with | [] => some .unwatch | _ => none)
  else if n == sb "ping" then (match a with | [] => some (.ping none) | [m] => some (.ping (some m)) | _ => none)
  else if n == sb "echo" then (match a with | [m] => some (.echo m) | _ => none)
  else if n == sb "quit" then some .quit
  else if n == sb "hello" then
    (match a with
     | [] => some (.hello none)
     | v :: r => do
       let v ← int? v
       -- [AUTH user pass] [SETNAME name], in either order
       let o ← parseOpts [(sb "auth", 2), (sb "setname", 1)] r []
       let _ := o
       pure (.hello (some v)))
  else if n == sb "client" then
    (match a with
     | s :: r =>
       let u := lowerB s
       if u == sb "id" then (if r.isEmpty then some .clientId else none)
       else if u == sb "getname" then (if r.isEmpty then some .clientGetname else none)
       else if u == sb "setname" then (match r with | [x] => some (.clientSetname x) | _ => none)
       else if u == sb "info" then (if r.isEmpty then some .clientInfo else none)
       else if u == sb "list" then some .clientList
       else if u == sb "kill" || u == sb "no-evict" || u == sb "setinfo" || u == sb "unblock" then some (.opaque "client")
       else none
     | [] => none)
  else if n == sb "blpop" || n == sb "brpop" then
    (match a with
     | _ :: _ :: _ =>
       let ks := a.dropLast
       if isFloatArg (a.getLast?.getD []) then some (.bpop ks (n == sb "blpop")) else none
     | _ => none)
  else if n == sb "blmove" then
    (match a with
     | [s, d, x, y, t] => (do let x ← leftRight x; let y ← leftRight y; if isFloatArg t then pure (.lmove s d x y) else none)
     | _ => none)
  else if n == sb "brpoplpush" then
    (match a with | [s, d, t] => if isFloatArg t then some (.lmove s d false true) else none | _ => none)
  else if n == sb "blmpop" then
    -- with nothing to pop it blocks for its (short) timeout and answers nil, like LMPOP at once
    (match a with | t :: r => if isFloatArg t then parseLmpop r else none | _ => none)
  else none

/-- commands the emulator knows (`handlerTable`) -/
def knownCommands : List String :=
  ["append","bitcount","bitfield","bitfield_ro","bitop","bitpos","blmove","blmpop","blpop","brpop",
   "brpoplpush","client","command","copy","dbsize","decr","decrby","del","discard","dump","echo","exec",
   "exists","expire","expireat","expiretime","flushall","flushdb","get","getbit","getdel","getex",
   "getrange","getset","incr","incrby","incrbyfloat","info","hdel","hexists","hello","hget","hgetall",
   "hincrby","hincrbyfloat","hkeys","hlen","hmget","hmset","hrandfield","hscan","hset","hsetnx","hstrlen",
   "hvals","lcs","lindex","linsert","llen","lmove","lmpop","lpush","lpushx","lpop","lpos","lrange","lrem",
   "lset","ltrim","mget","mset","msetnx","multi","keys","pexpire","pexpireat","pexpiretime","persist",
   "psetex","ping","pttl","quit","randomkey","rename","renamenx","restore","rpush","rpushx","rpop",
   "rpoplpush","sadd","scard","scan","sdiff","sdiffstore","select","set","setbit","setex","setnx",
   "setrange","sinter","sintercard","sinterstore","sismember","smembers","smismember","smove","sort",
   "srandmember","srem","strlen","substr","sscan","sunion","sunionstore","touch","ttl","type","unlink",
   "unwatch","watch"]

/-- commands the model has no semantics for: the driver does not judge their replies and the
    generators keep them away from state (`opaque`) -/
def unmodelled : List String := ["command", "info", "dump", "restore"]

/-! ### Sessions and the database table -/

structure Queued where
  argv : List Bytes
  dbRef : Nat
  deriving Repr

/-- the database a queued command runs on: the one its connection has selected when EXEC gets to it (a
    SELECT earlier in the same transaction counts); with quirk D25 the one selected when it was queued -/
def Queued.ref (x : Queued) (q : Quirks) (current : Nat) : Nat :=
  if q.multiBindsAtQueue then x.dbRef else current

structure Session where
  dbIdx : Nat := 0
  dbRef : Nat := 0
  resp : Int := 2
  name : Bytes := []
  clientId : Int := 0
  queue : Option (List Queued) := none
  queueErr : Bool := false
  watches : List (Nat × Bytes × Nat) := []
  deriving Repr, Inhabited

structure State where
  heap : List (Nat × Db) := []         -- database objects by reference
  table : List (Nat × Nat) := []       -- index → reference (`dss.dbs`)
  nextRef : Nat := 0
  sessions : List (Nat × Session) := []
  deriving Repr, Inhabited

namespace State

def getDb (s : State) (ref : Nat) : Db := ((s.heap.find? (·.1 == ref)).map (·.2)).getD {}

def setDb (s : State) (ref : Nat) (db : Db) : State :=
  { s with heap := if s.heap.any (·.1 == ref) then s.heap.map fun (r, d) => if r == ref then (r, db) else (r, d)
                   else s.heap ++ [(ref, db)] }

/-- `getDb(index, create = true)` -/
def tableRef (s : State) (idx : Nat) : State × Nat :=
  match s.table.find? (·.1 == idx) with
  | some (_, r) => (s, r)
  | none =>
    let r := s.nextRef
    ({ s with table := s.table ++ [(idx, r)], nextRef := r + 1, heap := s.heap ++ [(r, {})] }, r)

def session (s : State) (c : Nat) : Session := ((s.sessions.find? (·.1 == c)).map (·.2)).getD {}

def setSession (s : State) (c : Nat) (x : Session) : State :=
  { s with sessions := if s.sessions.any (·.1 == c) then s.sessions.map fun (i, y) => if i == c then (i, x) else (i, y)
                       else s.sessions ++ [(c, x)] }

/-- a new connection (`newClientState`) -/
def connect (s : State) (c : Nat) (clientId : Int) : State :=
  let (s, r) := s.tableRef 0
  s.setSession c { dbRef := r, clientId := clientId }

def init : State := (({} : State).tableRef 0).1

end State

/-- outcome of one dispatched command -/
structure Out where
  st : State
  reply : Value
  hint : Match := .exact
  crash : Option String := none
  pushed : List (Nat × Bytes × Nat) := []    -- (db ref, key, count)
  judged : Bool := true                      -- false: reply of an unmodelled command
  deriving Inhabited

def errExecNoMulti : Value := .error (sb "ERR EXEC without MULTI")
def errDiscardNoMulti : Value := .error (sb "ERR DISCARD without MULTI")
def errNested : Value := .error (sb "ERR MULTI calls can not be nested")
def errWatchInMulti : Value := .error (sb "ERR WATCH inside MULTI is not allowed")
def errDbRange : Value := .error (sb "ERR DB index is out of range")
def errDbCopy : Value := .error (sb "ERR database copy not supported")
def execAbort : Value := .error (sb "EXECABORT Transaction discarded because of previous errors.")

/-- `hasChangedUnlocked`: raw lookup, no expiry. With the quirk off, an expired key counts as gone. -/
def watchChanged (c : Ctx) (s : State) (w : Nat × Bytes × Nat) : Bool :=
  let (ref, k, id) := w
  let db := s.getDb ref
  let cur := if c.q.inplaceKeepsVersion then db.raw k else db.live c.now k
  match cur with
  | some e => id != e.id
  | none => id != 0

/-- run a data command against the database `ref` -/
def onDb (s : State) (ref : Nat) (f : Db → R) : Out :=
  let r := f (s.getDb ref)
  { st := s.setDb ref r.db, reply := r.reply, hint := r.hint, crash := r.crash,
    pushed := r.pushed.map fun (k, n) => (ref, k, n) }

/-- the handler of one parsed command. `ref` is the database bound when the command was
    prepared (`ctx.dsc.ds`); session-level commands use the session's current binding. -/
def runCmd (c : Ctx) (s : State) (conn : Nat) (ref : Nat) (inMulti : Bool) : Cmd → Out
  | .set k v o nx => onDb s ref fun db => cmdSet c db k v o nx
  | .append k v => onDb s ref fun db => cmdAppend c db k v
  | .get k => onDb s ref fun db => cmdGet c db k
  | .getdel k => onDb s ref fun db => cmdGetDel c db k
  | .getex k e => onDb s ref fun db => cmdGetEx c db k e
  | .strlen k => onDb s ref fun db => cmdStrlen c db k
  | .getrange k a b => onDb s ref fun db => cmdGetRange c db k a b
  | .setrange k o v => onDb s ref fun db => cmdSetRange c db k o v
  | .incrby k d => onDb s ref fun db => cmdIncrBy c db k d
  | .decrby k d => onDb s ref fun db => cmdDecrBy c db k d
  | .incrbyfloat k d => onDb s ref fun db => cmdIncrByFloat c db k d
  | .mget ks => onDb s ref fun db => cmdMGet c db ks
  | .mset kvs nx => onDb s ref fun db => cmdMSet c db kvs nx
  | .lcsLen a b => onDb s ref fun db =>
      match db.live c.now a, db.live c.now b with
      | some { val := .str x, .. }, some { val := .str y, .. } =>
        R.ok db (vInt (if c.q.lcsRunes then lcsLen (toRunes x) (toRunes y) else lcsLen x y))
      | some { val := .str _, .. }, none | none, some { val := .str _, .. } | none, none => R.ok db (.bulk [])
      | _, _ => R.ok db wrongType
  | .push k vs l x => onDb s ref fun db => cmdPush c db k vs l x
  | .pop k n l => onDb s ref fun db => cmdPop c db k n l
  | .llen k => onDb s ref fun db => cmdLLen c db k
  | .lindex k i => onDb s ref fun db => cmdLIndex c db k i
  | .lrange k a b => onDb s ref fun db => cmdLRange c db k a b
  | .lset k i v => onDb s ref fun db => cmdLSet c db k i v
  | .linsert k b p v => onDb s ref fun db => cmdLInsert c db k b p v
  | .lrem k n v => onDb s ref fun db => cmdLRem c db k n v
  | .ltrim k a b => onDb s ref fun db => cmdLTrim c db k a b
  | .lpos k v r n m => onDb s ref fun db => cmdLPos c db k v r n m
  | .lmove a b x y => onDb s ref fun db => cmdLMove c db a b x y
  | .lmpop nk ks l cnt =>
      if nk != ks.length then { st := s, reply := errSyntax }
      else if (cnt.map fun x => decide (x < 1)).getD false then { st := s, reply := errSyntax }
      else onDb s ref fun db => cmdLMPop c db ks l ((cnt.getD 1).toNat)
  | .bpop ks left => onDb s ref fun db =>
      -- first key with an element; on an empty-handed return the (short) timeout has passed
      let rec go : List Bytes → R
        | [] => R.ok db .nil
        | k :: r =>
          match listOf c db k with
          | .error _ => R.ok db wrongType
          | .ok none => go r
          | .ok (some (e, l)) =>
            match (if left then l.head? else l.getLast?) with
            | none => go r
            | some x =>
              R.ok (upd c db k e (.list (if left then l.drop 1 else l.dropLast))) (.array [.bulk k, .bulk x])
      go ks
  | .hset k fvs nx ok => onDb s ref fun db => cmdHSet c db k fvs nx ok
  | .hget k f => onDb s ref fun db => cmdHGet c db k f
  | .hmget k fs => onDb s ref fun db => cmdHMGet c db k fs
  | .hgetall k => onDb s ref fun db => cmdHGetAll c db k
  | .hkeys k v => onDb s ref fun db => cmdHKeys c db k v
  | .hlen k => onDb s ref fun db => cmdHLen c db k
  | .hexists k f => onDb s ref fun db => cmdHExists c db k f
  | .hstrlen k f => onDb s ref fun db => cmdHStrlen c db k f
  | .hdel k fs => onDb s ref fun db => cmdHDel c db k fs
  | .hincrby k f d => onDb s ref fun db => cmdHIncrBy c db k f d
  | .hincrbyfloat k f d => onDb s ref fun db => cmdHIncrByFloat c db k f d
  | .hrandfield k cnt wv => onDb s ref fun db =>
      if (cnt.map fun x => decide (x < -1048576) || decide (x > 1048576)).getD false then
        R.ok db (.error (sb "ERR value is out of range")) else
      match hashOf c db k with
      | .error _ => R.ok db wrongType
      | .ok none => R.ok db (if cnt.isNone then .nil else if wv then .map [] else .array [])
      | .ok (some _) => { db := db, reply := .nil, hint := .custom "hrandfield" }
  | .sadd k ms => onDb s ref fun db => cmdSAdd c db k ms
  | .srem k ms => onDb s ref fun db => cmdSRem c db k ms
  | .scard k => onDb s ref fun db => cmdSCard c db k
  | .sismember k m => onDb s ref fun db => cmdSIsMember c db k m
  | .smismember k ms => onDb s ref fun db => cmdSMIsMember c db k ms
  | .smembers k => onDb s ref fun db => cmdSMembers c db k
  | .smove a b m => onDb s ref fun db => cmdSMove c db a b m
  | .salg op ks => onDb s ref fun db => cmdSetAlgebra c db op ks
  | .salgStore op d ks => onDb s ref fun db => cmdSetAlgebraStore c db op d ks
  | .sintercard n ks lim => onDb s ref fun db => cmdSInterCard c db n ks lim
  | .srandmember k cnt => onDb s ref fun db =>
      if (cnt.map fun x => decide (x < -1048576) || decide (x > 1048576)).getD false then
        R.ok db (.error (sb "ERR value is out of range")) else
      match setOf c db k with
      | .error _ => R.ok db wrongType
      | .ok none => R.ok db (if cnt.isNone then .nil else .array [])
      | .ok (some _) => { db := db, reply := .nil, hint := .custom "srandmember" }
  | .del ks r => onDb s ref fun db => cmdDel c db ks r
  | .exists_ ks => onDb s ref fun db => cmdExists c db ks
  | .touch ks => onDb s ref fun db => cmdExists c db ks
  | .type_ k => onDb s ref fun db => cmdType c db k
  | .rename a b nx => onDb s ref fun db => cmdRename c db a b nx
  | .copy a b rep dbOpt =>
      if dbOpt then { st := s, reply := errDbCopy } else onDb s ref fun db => cmdCopy c db a b rep
  | .sort k b l g d al st => onDb s ref fun db => cmdSort c db k b l g d al st
  | .keys _ => onDb s ref fun db => { db := db, reply := .nil, hint := .custom "keys" }
  | .randomkey => onDb s ref fun db => { db := db, reply := .nil, hint := .custom "randomkey" }
  | .dbsize =>
      -- `ctx.dsc.dbSize()`: the data store the command is bound to, live keys only
      let db := s.getDb ref
      let n := if c.q.rawLookupSeesExpired then db.keys.length else (db.liveKeys c.now).length
      { st := s, reply := vInt n }
  | .expire k n unit abs opt => onDb s ref fun db =>
      cmdExpireAt c db k (if abs then n * unit else c.now + n * unit) opt
  | .persist k => onDb s ref fun db => cmdPersist c db k
  | .ttl k kind => onDb s ref fun db => cmdTtl c db k kind
  | .scan kind k _ _ cnt _ => onDb s ref fun db =>
      if (cnt.map fun x => decide (x < 1)).getD false then R.ok db errSyntax else
      match kind with
      | 0 => { db := db, reply := .nil, hint := .custom "scan" }
      | 1 => (match hashOf c db k with
              | .error _ => R.ok db wrongType
              | .ok none => R.ok db (.array [.bulk (sb "0"), .array []])
              | .ok (some _) => { db := db, reply := .nil, hint := .custom "hscan" })
      | _ => (match setOf c db k with
              | .error _ => R.ok db wrongType
              | .ok none => R.ok db (.array [.bulk (sb "0"), .array []])
              | .ok (some _) => { db := db, reply := .nil, hint := .custom "sscan" })
  | .getbit k o => onDb s ref fun db => cmdGetBit c db k o
  | .setbit k o v => onDb s ref fun db => cmdSetBit c db k o v
  | .bitcount k r => onDb s ref fun db => cmdBitCount c db k r
  | .bitpos k b st en => onDb s ref fun db => cmdBitPos c db k b st en
  | .bitop op d ks => onDb s ref fun db => cmdBitOp c db op d ks
  | .bitfield k ops _ => onDb s ref fun db => cmdBitfield c db k ops
  | .select i =>
      if i < 0 || i > 15 then { st := s, reply := errDbRange }
      else
        let (s1, r) := s.tableRef i.toNat
        let ses := s1.session conn
        { st := s1.setSession conn { ses with dbIdx := i.toNat, dbRef := r }, reply := vOK }
  | .flushdb =>
      let ses := s.session conn
      if c.q.flushDetaches then
        let s1 := { s with table := s.table.filter (·.1 != ses.dbIdx) }
        let (s2, r) := s1.tableRef ses.dbIdx
        { st := s2.setSession conn { ses with dbRef := r }, reply := vOK }
      else
        let (s1, r) := s.tableRef ses.dbIdx
        let old := s1.getDb r
        { st := s1.setDb r { keys := [], nextId := old.nextId, dirty := false }, reply := vOK }
  | .flushall =>
      let ses := s.session conn
      if c.q.flushDetaches then
        let s1 := { s with table := [] }
        let (s2, r) := s1.tableRef ses.dbIdx
        { st := s2.setSession conn { ses with dbRef := r }, reply := vOK }
      else
        { st := { s with heap := s.heap.map fun (r, d) => (r, { keys := [], nextId := d.nextId, dirty := false }) },
          reply := vOK }
  | .multi | .exec | .discard => { st := s, reply := .error (sb "ERR internal: control command") }
  | .watch ks =>
      if inMulti then { st := s, reply := errWatchInMulti } else
      let ses := s.session conn
      let db := s.getDb ref
      let ids := ks.map fun k => (ref, k, match db.live c.now k with | some e => e.id | none => 0)
      -- one entry per (db, key); a key that is watched already keeps the version of its first WATCH
      let ws := ids.foldl (fun acc (w : Nat × Bytes × Nat) =>
        if acc.any (fun (x : Nat × Bytes × Nat) => x.1 == w.1 && x.2.1 == w.2.1) then acc else acc ++ [w]) ses.watches
      { st := s.setSession conn { ses with watches := ws }, reply := vOK }
  | .unwatch =>
      let ses := s.session conn
      { st := s.setSession conn { ses with watches := [] }, reply := vOK }
  | .ping none => { st := s, reply := .simple (sb "PONG") }
  | .ping (some m) => { st := s, reply := .bulk m }
  | .echo m => { st := s, reply := .bulk m }
  | .quit => { st := s, reply := vOK }
  | .hello ver =>
      let ses := s.session conn
      match ver with
      | some v =>
        if !c.q.helloAnyVersion && v != 2 && v != 3 then
          { st := s, reply := .error (sb "NOPROTO unsupported protocol version") }
        else
          { st := s.setSession conn { ses with resp := v }, reply := .int v, hint := .custom "hello" }
      | none => { st := s, reply := .int ses.resp, hint := .custom "hello" }
  | .clientId => { st := s, reply := .int (s.session conn).clientId }
  | .clientGetname =>
      let nm := (s.session conn).name
      { st := s, reply := if nm.isEmpty then .nil else .bulk nm }
  | .clientSetname nm =>
      -- `for _, ch := range name { if ch < 33 …`: bytes below 33 are refused (ASCII names generated)
      if nm.any (· < 33) then { st := s, reply := .error (sb "ERR Client names cannot contain spaces, newlines or special characters.") }
      else { st := s.setSession conn { (s.session conn) with name := nm }, reply := vOK }
  | .clientInfo => { st := s, reply := .nil, hint := .custom "clientinfo" }
  | .clientList => { st := s, reply := .nil, hint := .custom "clientlist" }
  | .opaque _ => { st := s, reply := .nil, judged := false }

def isControl (n : Bytes) : Bool :=
  n == sb "multi" || n == sb "exec" || n == sb "discard" || n == sb "watch"

def downIf (resp : Int) (_c : Ctx) (v : Value) : Value :=
  if resp == 2 then down v else v

/-- SINTERCARD as Redis reads it: the first numkeys words are keys, whatever they spell -/
def sintercardByNumkeys (args : List Bytes) : Option Cmd :=
  match args with
  | nkb :: k :: r =>
    match int? nkb with
    | none => none
    | some nk =>
      let all := k :: r
      if 0 < nk && nk.toNat ≤ all.length then
        match all.drop nk.toNat with
        | [] => some (.sintercard nk all 0)
        | [t, l] => if lowerB t == sb "limit" then (int? l).map fun lim => .sintercard nk (all.take nk.toNat) lim else none
        | _ => none
      else some (.sintercard nk all 0)      -- numkeys out of step: the command function reports it
  | _ => none

/-- argument parsing with the one deviation of the grammar-driven parser that is kept as a quirk (D88) -/
def parseCmdQ (q : Quirks) (name : Bytes) (args : List Bytes) : Option Cmd :=
  if !q.sintercardLimitGreedy && lowerB name == sb "sintercard" then sintercardByNumkeys args
  else parseCmd name args

/-- run the queued commands of EXEC in order -/
def execQueue (c : Ctx) (conn : Nat) : List Queued → List Value → State → List Value → List Match → List (Nat × Bytes × Nat) →
    State × List Value × List Match × List (Nat × Bytes × Nat) × Option String
  | [], _, s, vs, hs, ps => (s, vs.reverse, hs.reverse, ps, none)
  | q :: r, impls, s, vs, hs, ps =>
    match q.argv with
    | [] => execQueue c conn r impls s vs hs ps
    | name :: args =>
      if unmodelled.any (sb · == lowerB name) then
        -- queued, executed by the implementation, not judged by the model
        execQueue c conn r impls.tail s (.nil :: vs) (.custom "any" :: hs) ps
      else
      match parseCmdQ c.q name args with
      | none => execQueue c conn r impls.tail s (errArity name :: vs) (.exact :: hs) ps
      | some cmd =>
        -- the implementation reads its clock again for every queued command; `impls` are the
        -- elements of the implementation's EXEC reply (the float commands adopt their text)
        let c := { c with now := c.now + 1000, impl := impls.head? }
        let o := runCmd c s conn (q.ref c.q (s.session conn).dbRef) true cmd
        match o.crash with
        | some site => (o.st, vs.reverse, hs.reverse, ps, some site)
        | none =>
          let resp := (o.st.session conn).resp
          execQueue c conn r impls.tail o.st (downIf resp c o.reply :: vs) ((if o.judged then o.hint else .custom "any") :: hs) (ps ++ o.pushed)

/-- the elements of the implementation's reply to EXEC, when it is an array -/
def implElems (c : Ctx) : List Value :=
  match c.impl with
  | some (.array xs) => xs
  | _ => []

def Cmd.isControl : Cmd → Bool
  | .multi | .exec | .discard | .watch _ => true
  | _ => false

/-- what `prepare` + `dispatchHandler` do once the arguments have been parsed -/
def dispatchParsed (c : Ctx) (s : State) (conn : Nat) (argv : List Bytes) (cmd : Cmd) : Out :=
  let ses := s.session conn
  match ses.queue with
  | some q =>
    if !cmd.isControl then
      { st := s.setSession conn { ses with queue := some (q ++ [{ argv := argv, dbRef := ses.dbRef }]) },
        reply := .simple (sb "QUEUED") }
    else match cmd with
      | .multi => { st := s, reply := errNested }
      | .discard => { st := s.setSession conn { ses with queue := none, watches := [], queueErr := false }, reply := vOK }
      | .exec =>
        if ses.queueErr then
          { st := s.setSession conn { ses with queue := none, watches := [], queueErr := false }, reply := execAbort }
        else if ses.watches.any (watchChanged c s) then
          if c.q.abortedExecStaysMulti then { st := s, reply := .nil }
          else { st := s.setSession conn { ses with queue := none, watches := [] }, reply := .nil }
        else
          let (s1, vs, hs, ps, crash) := execQueue c conn q (implElems c) s [] [] []
          let ses1 := s1.session conn
          -- a handler that panics unwinds `fnExec` before the queue is dropped: the effects of the
          -- commands already executed stay, and so do the queue and the watches
          let s2 := if crash.isSome then s1
                    else s1.setSession conn { ses1 with queue := none, watches := [], queueErr := false }
          { st := s2, reply := downIf ses1.resp c (.array vs), hint := .each hs, crash := crash, pushed := ps }
      | other =>
        let o := runCmd c s conn ses.dbRef true other
        { o with reply := downIf (o.st.session conn).resp c o.reply }
  | none =>
    match cmd with
    | .multi => { st := s.setSession conn { ses with queue := some [], queueErr := false }, reply := vOK }
    | .exec => { st := s, reply := errExecNoMulti }
    | .discard => { st := s, reply := errDiscardNoMulti }
    | other =>
      let o := runCmd c s conn ses.dbRef false other
      { o with reply := downIf (o.st.session conn).resp c o.reply }

/-- does the number of words fit the command's arity (table generated from the repository's command
    descriptions)? `argc` counts the command name -/
def arityOk (name : Bytes) (argc : Nat) : Bool :=
  match arityTable.find? (fun p => sb p.1 == name) with
  | some (_, a) => if a > 0 then argc == a.toNat else decide (argc ≥ a.natAbs)
  | none => true

/-- a container command (CLIENT, COMMAND, …) with a subcommand that does not exist -/
def unknownSubcommand (name : Bytes) (args : List Bytes) : Bool :=
  match subcommandTable.find? (fun p => sb p.1 == name), args with
  | some (_, subs), sub :: _ => !subs.any (fun x => sb x == lowerB sub)
  | _, _ => false

/-- `cmdDispatcher.dispatch`: one command from connection `conn` -/
def dispatch (c : Ctx) (s : State) (conn : Nat) (argv : List Bytes) : Out :=
  match argv with
  | [] => { st := s, reply := .error (sb "ERR Invalid command input") }
  | name :: args =>
    let n := lowerB name
    let ses := s.session conn
    if !knownCommands.any (sb · == n) then
      let ses' := if ses.queue.isSome && !c.q.queueErrorNoAbort then { ses with queueErr := true } else ses
      { st := s.setSession conn ses', reply := .error (sb "ERR Unknown command") }
    else if unmodelled.any (sb · == n) then
      match ses.queue with
      | none => { st := s, reply := .nil, judged := false }
      | some q =>
        -- inside MULTI the model has to know whether the command was queued
        let definite := !arityOk n (args.length + 1) || unknownSubcommand n args
        let queued := match c.impl with | some (.simple w) => w == sb "QUEUED" | _ => false
        if queued && !definite then
          { st := s.setSession conn { ses with queue := some (q ++ [{ argv := argv, dbRef := ses.dbRef }]) },
            reply := .simple (sb "QUEUED") }
        else
          { st := s.setSession conn (if !c.q.queueErrorNoAbort then { ses with queueErr := true } else ses),
            reply := errArity name }
    else
    match parseCmdQ c.q name args with
    | none =>
      -- The arguments are wrong. Inside MULTI Redis refuses some of these while queueing (arity:
      -- EXEC will abort) and queues others (option syntax: the error is the command's reply in
      -- EXEC). The model does not tell the two kinds apart and follows what the implementation did.
      -- Wrong arity and unknown subcommands are always refused while queueing.
      let definite := !arityOk n (args.length + 1) || unknownSubcommand n args
      match ses.queue, c.impl with
      | some q, some (.simple w) =>
        if w == sb "QUEUED" && !definite then
          { st := s.setSession conn { ses with queue := some (q ++ [{ argv := argv, dbRef := ses.dbRef }]) },
            reply := .simple (sb "QUEUED") }
        else
          { st := s.setSession conn (if !c.q.queueErrorNoAbort then { ses with queueErr := true } else ses), reply := errArity name }
      | _, _ =>
        let ses' := if ses.queue.isSome && !c.q.queueErrorNoAbort then { ses with queueErr := true } else ses
        { st := s.setSession conn ses', reply := errArity name }
    | some (.opaque _) => { st := s, reply := .nil, judged := false }   -- handled by the emulator, not modelled
    | some cmd => dispatchParsed c s conn argv cmd

end RedisEmu
