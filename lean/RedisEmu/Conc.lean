/-
  A small trace semantics for threads, mutexes and shared-memory accesses, used by the C08 / C16
  theorems. Core Lean only.
-/
namespace RedisEmu

inductive Ev where
  | acq (t m : Nat)               -- thread t acquires mutex m
  | rel (t m : Nat)               -- thread t releases mutex m
  | acc (t loc : Nat) (w : Bool)  -- thread t reads (w = false) or writes location loc
  deriving Repr, DecidableEq

/-- who holds mutex `m` after the events of `tr` (`none` = free) -/
def holder (m : Nat) : List Ev → Option Nat
  | [] => none
  | e :: rest =>
    -- events are listed oldest first; fold from the left
    holderFrom m none (e :: rest)
where
  holderFrom (m : Nat) : Option Nat → List Ev → Option Nat
    | h, [] => h
    | h, .acq t m' :: r => holderFrom m (if m' = m then some t else h) r
    | h, .rel _ m' :: r => holderFrom m (if m' = m then none else h) r
    | h, .acc _ _ _ :: r => holderFrom m h r

def holderAfter (m : Nat) (h : Option Nat) (tr : List Ev) : Option Nat := holder.holderFrom m h tr

/-- mutexes are exclusive: an acquire only succeeds on a free mutex, a release is done by the
    holder. `h` is the holder function before the trace. -/
def WFFrom (hold : Nat → Option Nat) : List Ev → Prop
  | [] => True
  | .acq t m :: r => hold m = none ∧ WFFrom (fun x => if x = m then some t else hold x) r
  | .rel t m :: r => hold m = some t ∧ WFFrom (fun x => if x = m then none else hold x) r
  | .acc _ _ _ :: r => WFFrom hold r

end RedisEmu
