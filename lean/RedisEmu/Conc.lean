/-
  A small trace semantics for threads, mutexes and shared-memory accesses, used by the C08 / C16
  theorems. Core Lean only.
-/
namespace RedisEmu

inductive Ev where
  | acq (t m : Nat)               -- thread t acquires mutex m
  | rel (t m : Nat)               -- thread t releases mutex m
  | acc (t loc : Nat) (w : Bool)  -- thread t reads (w = false) or writes location loc
  deriving Repr, DecidableEq

/-- who holds mutex `m` after the events of `tr` (`none` = free) -/
def holder (m : Nat) : List Ev → Option Nat
  | [] => none
  | e :: rest =>
    -- events are listed oldest first; fold from the left
    holderFrom m none (e :: rest)
where
  holderFrom (m : Nat) : Option Nat → List Ev → Option Nat
    | h, [] => h
    | h, .acq t m' :: r => holderFrom m (if m' = m then some t else h) r
    | h, .rel _ m' :: r => holderFrom m (if m' = m then none else h) r
    | h, .acc _ _ _ :: r => holderFrom m h r

def holderAfter (m : Nat) (h : Option Nat) (tr : List Ev) : Option Nat := holder.holderFrom m h tr

/-- mutexes are exclusive: an acquire only succeeds on a free mutex, a release is done by the
    holder. `h` is the holder function before the trace. -/
def WFFrom (hold : Nat → Option Nat) : List Ev → Prop
  | [] => True
  | .acq t m :: r => hold m = none ∧ WFFrom (fun x => if x = m then some t else hold x) r
  | .rel t m :: r => hold m = some t ∧ WFFrom (fun x => if x = m then none else hold x) r
  | .acc _ _ _ :: r => WFFrom hold r

/-! ### several data stores at once: the gate lock (`multiDataStoreLock`)

A thread of the emulator holds data store locks and may be waiting for one more. The discipline of the code
(after D89 / D91): whoever waits for a data store while holding another one holds the gate lock
(`multiDataStoreLock`: FLUSHALL, EXEC with a queued FLUSHALL or SELECT), and the gate lock has one holder. -/

structure LockTh where
  held : List Nat            -- the data stores it has locked
  waits : Option Nat         -- the data store it is waiting for
  gate : Bool                -- holds the gate lock
  deriving Repr, DecidableEq

/-- `a` waits for a data store that `b` holds -/
def LockTh.waitsFor (a b : LockTh) : Prop := ∃ r, a.waits = some r ∧ r ∈ b.held

structure GateDiscipline (ts : List LockTh) : Prop where
  holdAndWait : ∀ t ∈ ts, t.waits.isSome = true → t.held ≠ [] → t.gate = true
  oneGate : ts.Pairwise fun a b => ¬ (a.gate = true ∧ b.gate = true)

end RedisEmu
