import RedisEmu.Store
/-
  Persistence (`dataStorePersist.go`, `dataStoreSet.save`, `periodicSave`): one file per database,
  written only when the database is dirty, to a temporary name that is renamed over the snapshot
  when complete. The gob encoding is abstracted to "the file holds the stored keys" (it is
  exercised, not verified: the `persist` tool restarts real emulators).
-/
namespace RedisEmu

/-- content of a snapshot file -/
structure Snapshot where
  keys : List (Bytes × Entry)
  nextId : Nat
  deriving Repr, BEq, DecidableEq

def Db.snapshot (db : Db) : Snapshot := { keys := db.keys, nextId := db.nextId }

def Snapshot.load (s : Snapshot) : Db := { keys := s.keys, nextId := s.nextId, dirty := false }

/-- a file is either completely written or cut short by a crash -/
inductive FileContent where
  | complete (s : Snapshot)
  | truncated
  deriving Repr, BEq, DecidableEq

/-- the persist directory: file name → content -/
abbrev FS := List (String × FileContent)

def FS.get (fs : FS) (name : String) : Option FileContent := (fs.find? (·.1 == name)).map (·.2)

def FS.put (fs : FS) (name : String) (c : FileContent) : FS :=
  (name, c) :: fs.filter (·.1 != name)

def FS.remove (fs : FS) (name : String) : FS := fs.filter (·.1 != name)

/-- what a restart loads for the database whose snapshot file is `name`: nothing when the file is
    missing, an error (treated as an unusable database) when it is truncated -/
inductive Loaded where
  | absent
  | corrupt
  | ok (s : Snapshot)
  deriving Repr, BEq, DecidableEq

def FS.load (fs : FS) (name : String) : Loaded :=
  match fs.get name with
  | none => .absent
  | some .truncated => .corrupt
  | some (.complete s) => .ok s

/-- the steps of `dataStore.save` as the file system sees them -/
inductive SaveStep where
  | createTmp      -- os.Create(name + ".tmp"): an empty, incomplete file
  | writeSome      -- header / some keys written: still incomplete
  | closeTmp       -- everything written and closed
  | rename         -- os.Rename(tmp, name)
  deriving Repr, DecidableEq

def tmpOf (name : String) : String := name ++ ".tmp"

def applyStep (name : String) (s : Snapshot) (fs : FS) : SaveStep → FS
  | .createTmp => fs.put (tmpOf name) .truncated
  | .writeSome => fs.put (tmpOf name) .truncated
  | .closeTmp => fs.put (tmpOf name) (.complete s)
  | .rename => (fs.put name (.complete s)).remove (tmpOf name)

/-- the complete save of one database -/
def saveSteps : List SaveStep := [.createTmp, .writeSome, .writeSome, .closeTmp, .rename]

def runSteps (name : String) (s : Snapshot) : List SaveStep → FS → FS
  | [], fs => fs
  | st :: r, fs => runSteps name s r (applyStep name s fs st)

/-- `dataStoreCommand.save`: only a dirty database is written; afterwards it is clean -/
def saveIfDirty (name : String) (db : Db) (fs : FS) : Db × FS :=
  if db.dirty then ({ db with dirty := false }, runSteps name db.snapshot saveSteps fs) else (db, fs)

end RedisEmu
