import RedisEmu.MWake
/-
  Running the multi-key wake-up model on a scenario of the `block` tool (part "multi-key scenarios"): after
  every action of the scenario everybody who is in motion acts (the look after a registration, the retry after
  a wake-up) until nobody is, and the harness compares who is still blocked and how long every list is with
  what it observes on the implementation at the same point. Clients are numbered in the order they registered.
-/
namespace RedisEmu

structure MRun where
  s : MState := {}
  ids : List Nat := []      -- the client numbers of `s.cs`, position by position
  next : Nat := 0

/-- one model step at position `i`; when the client leaves the table its number goes too -/
def MRun.stepAt (r : MRun) (st : MStep) (i : Nat) : MRun :=
  let s' := mstep true r.s st
  { r with s := s', ids := if s'.cs.length < r.s.cs.length then r.ids.eraseIdx i else r.ids }

def firstIdx (p : MC → Bool) (cs : List MC) : Option Nat :=
  (cs.zipIdx.find? fun x => p x.1).map (·.2)

/-- everybody in motion acts, oldest first, until nobody is in motion -/
def MRun.settle : Nat → MRun → MRun
  | 0, r => r
  | fuel + 1, r =>
    match firstIdx (fun c => c.pending) r.s.cs with
    | some i => MRun.settle fuel (r.stepAt (.look i) i)
    | none =>
      match firstIdx (fun c => c.token.isSome && !c.pending) r.s.cs with
      | some i => MRun.settle fuel (r.stepAt (.retry i) i)
      | none =>
        match firstIdx (fun c => !c.queued && c.token.isNone && !c.pending) r.s.cs with
        | some i => MRun.settle fuel (r.stepAt (.reenter i) i)
        | none => r

inductive MAct where
  | reg (keys : List Nat)
  | push (ks : List (Nat × Nat))      -- one transaction: (key, number of elements) …
  | steal (k : Nat)
  | leave (client : Nat)

def MRun.act (r : MRun) : MAct → MRun
  | .reg keys =>
    let r1 : MRun := { r with s := mstep true r.s (.register keys), ids := r.ids ++ [r.next], next := r.next + 1 }
    r1.settle 1000
  | .push ks => ({ r with s := ks.foldl (fun s (kn : Nat × Nat) => mstep true s (.push kn.1 kn.2)) r.s }).settle 1000
  | .steal k => ({ r with s := mstep true r.s (.steal k) }).settle 1000
  | .leave c =>
    match r.ids.idxOf? c with
    | some i => (r.stepAt (.leave i) i).settle 1000
    | none => r

def parseNatList (s : String) : List Nat := (s.splitOn ",").filterMap String.toNat?

def parseAct (w : String) : Option MAct :=
  match w.splitOn ":" with
  | ["reg", ks] => some (.reg (parseNatList ks))
  | ["steal", k] => k.toNat?.map .steal
  | ["leave", c] => c.toNat?.map .leave
  | "push" :: rest =>
    let ps := rest.filterMap fun p => match p.splitOn "x" with
      | [k, n] => (match k.toNat?, n.toNat? with | some k, some n => some (k, n) | _, _ => none)
      | _ => none
    if ps.length == rest.length && !ps.isEmpty then some (.push ps) else none
  | _ => none

/-- `keys`: the keys to report the list lengths of -/
def MRun.report (r : MRun) (keys : List Nat) : String :=
  let lens := keys.map fun k => s!"{k}:{r.s.len k}"
  s!"len={",".intercalate lens};blocked={",".intercalate (r.ids.map toString)}"

/-- what distinguishes two runs (the list lengths of the reported keys, the clients, their numbers) -/
def MRun.sig (r : MRun) (keys : List Nat) : List Nat × List MC × List Nat := (keys.map r.s.len, r.s.cs, r.ids)

def dedupe (keys : List Nat) (rs : List MRun) : List MRun :=
  rs.foldl (fun acc r => if acc.any (fun x => x.sig keys == r.sig keys) then acc else acc ++ [r]) []

/-- every quiescent state reachable by letting those in motion act in ANY order: which of two woken clients
    looks at the lists first is up to the scheduler, and can decide who is served -/
def MRun.settleAll (keys : List Nat) : Nat → MRun → List MRun
  | 0, r => [r]
  | fuel + 1, r =>
    let movers := (r.s.cs.zipIdx.filter fun x => x.1.pending || x.1.token.isSome || !x.1.queued).map fun x =>
      (x.2, if x.1.pending then MStep.look x.2 else if x.1.token.isSome then MStep.retry x.2 else MStep.reenter x.2)
    if movers.isEmpty then [r]
    else dedupe keys (movers.flatMap fun (i, st) => MRun.settleAll keys fuel (r.stepAt st i))

def MRun.actAll (keys : List Nat) (r : MRun) : MAct → List MRun
  | .reg ks =>
    let r1 : MRun := { r with s := mstep true r.s (.register ks), ids := r.ids ++ [r.next], next := r.next + 1 }
    r1.settleAll keys 64
  | .push ks => ({ r with s := ks.foldl (fun s (kn : Nat × Nat) => mstep true s (.push kn.1 kn.2)) r.s }).settleAll keys 64
  | .steal k => ({ r with s := mstep true r.s (.steal k) }).settleAll keys 64
  | .leave c =>
    match r.ids.idxOf? c with
    | some i => (r.stepAt (.leave i) i).settleAll keys 64
    | none => [r]

def parseStep (w : String) : Option (MAct × String) :=
  match w.splitOn "~" with
  | [a, obs] => (parseAct a).map fun x => (x, obs)
  | _ => none

/-- the scenario with what the implementation showed after every action: the model follows every schedule
    that explains the observations so far; `ok` if some schedule explains them all -/
def runScenarioObs (words : List String) (keys : List Nat) : String :=
  match words.mapM parseStep with
  | none => "bad-op"
  | some steps =>
    let rec go (i : Nat) (cands : List MRun) : List (MAct × String) → String
      | [] => "ok"
      | (a, obs) :: rest =>
        let next := dedupe keys (cands.flatMap fun r => r.actAll keys a)
        let fit := next.filter fun r => r.report keys == obs
        if fit.isEmpty then
          s!"mismatch at action {i}: observed {obs}; the model allows {" | ".intercalate ((next.map fun r => r.report keys).eraseDups)}"
        else go (i + 1) fit rest
    go 0 [{}] steps

def runScenario (words : List String) (keys : List Nat) : String :=
  match words.mapM parseAct with
  | none => "bad-op"
  | some acts => (acts.foldl MRun.act {}).report keys

end RedisEmu
