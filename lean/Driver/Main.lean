import RedisEmu.Random
import RedisEmu.MWakeRun
import RedisEmu.Exec
import RedisEmu.Glob
import RedisEmu.Dict
/-
  Line-protocol driver: the correspondence harness pipes one request per line and
  reads one answer per line.

    Q current|none            choose the quirk set (default current)
    R                         reset to the initial state
    N <conn> <clientId>       new connection
    X <conn> <t0> <t1> <reply|PANIC> <argc> <hexarg>…   execute, compare with the implementation reply
    M <conn> <t0> <argc> <hexarg>…                       execute without comparing; prints the model reply
    C <hex of implementation dump>                       compare complete state
    P <hex>                   run the request parser: prints `ok <len> <hex canonical>` | `invalid` | `crash`
    S <hex>                   serialize∘parse round trip of a reply (prints hex)
    W <hex>                   down-conversion of a parsed RESP3 value (prints hex)
    G <hexpat> <hexcand>      glob
-/
open RedisEmu

def Quirks.current : Quirks :=
  { Quirks.none with
    queueErrorNoAbort := false,     -- D24
    inplaceKeepsVersion := false,    -- D27 / D28
    rawLookupSeesExpired := false,  -- D22
    flushDetaches := false,         -- D42
    lcsRunes := false,              -- D68
    sintercardLimitGreedy := true,  -- D88
    multiBindsAtQueue := true }      -- D25

def words (s : String) : List String := (s.splitOn " ").filter (· ≠ "")

def firstToken (b : Bytes) : Bytes := b.takeWhile (· != 32)

partial def showV : Value → String
  | .simple s => "+" ++ toHex s
  | .error s => "-" ++ String.fromUTF8! (ByteArray.mk (firstToken s).toArray)
  | .int i => ":" ++ toString i
  | .bulk b => "$" ++ toHex b
  | .nil => "nil"
  | .null => "null"
  | .array xs => "[" ++ " ".intercalate (xs.map showV) ++ "]"
  | .map kvs => "{" ++ " ".intercalate (kvs.map fun (k, v) => showV k ++ "=" ++ showV v) ++ "}"
  | .set xs => "~(" ++ " ".intercalate (xs.map showV) ++ ")"
  | .attr kvs => "|" ++ " ".intercalate (kvs.map fun (k, v) => showV k ++ "=" ++ showV v) ++ "|"
  | .push k xs => ">" ++ toHex k ++ "[" ++ " ".intercalate (xs.map showV) ++ "]"
  | .double t => "," ++ toHex t
  | .bool b => if b then "#t" else "#f"
  | .blobErr s => "!" ++ toHex s
  | .verbatim f t => "=" ++ toHex f ++ ":" ++ toHex t
  | .big t => "(" ++ toHex t
  | .pairs kvs => "<" ++ " ".intercalate (kvs.map fun (k, v) => showV k ++ "=" ++ showV v) ++ ">"
  | .endMark => "."

/-- errors are compared by their first word only -/
partial def normErr : Value → Value
  | .error s => .error (firstToken s)
  | .array xs => .array (xs.map normErr)
  | .map kvs => .map (kvs.map fun (k, v) => (normErr k, normErr v))
  | .set xs => .set (xs.map normErr)
  | v => v

def multisetEq (a b : List Value) : Bool :=
  a.length == b.length &&
  (b.foldl (fun (acc : Option (List Value)) x =>
    match acc with
    | none => none
    | some l => match l.findIdx? (· == x) with
      | some i => some (l.eraseIdx i)
      | none => none) (some a)) == some []

/-- view a reply as key/value pairs: a map, or a flat array of even length, or an array of 2-arrays -/
def asPairs : Value → Option (List Value)
  | .map kvs => some (kvs.map fun (k, v) => .array [k, v])
  | .pairs kvs => some (kvs.map fun (k, v) => .array [k, v])
  | .array xs =>
    if xs.all (fun x => match x with | .array [_, _] => true | _ => false) && !xs.isEmpty then some xs
    else
      let rec go : List Value → Option (List Value)
        | [] => some []
        | [_] => none
        | a :: b :: r => (go r).map (.array [a, b] :: ·)
      go xs
  | _ => none

def elems : Value → Option (List Value)
  | .array xs => some xs
  | .set xs => some xs
  | _ => none

partial def replyMatches (h : Match) (exp got : Value) : Bool :=
  let exp := normErr exp
  let got := normErr got
  match h with
  | .exact => exp == got
  | .unordered =>
    match elems exp, elems got with
    | some a, some b => multisetEq a b
    | _, _ => exp == got
  | .unorderedPairs =>
    match asPairs exp, asPairs got with
    | some a, some b => multisetEq a b
    | _, _ => exp == got
  | .intTol t =>
    match exp, got with
    | .int a, .int b => decide ((a - b).natAbs ≤ t)
    | _, _ => exp == got
  | .float => exp == got
  | .custom _ => true
  | .each hs =>
    match exp, got with
    | .array a, .array b =>
      a.length == b.length &&
      ((a.zip b).zip (hs ++ List.replicate a.length .exact)).all fun ((x, y), hh) => replyMatches hh x y
    | _, _ => exp == got

/-! ### validators for replies the model does not determine -/

def isAscii (b : Bytes) : Bool := b.all (· < 128)

def validate (name : String) (c : Ctx) (s : State) (conn : Nat) (argv : List Bytes) (got : Value) : Bool :=
  let ses := s.session conn
  let db := s.getDb ses.dbRef
  let key := argv.getD 1 []
  match name with
  | "any" => true
  | "srandmember" =>
    (match setOf c db key with
     | .ok (some (_, m)) => validateRandom m ((argv.getD 2 []) |> fun x => if argv.length > 2 then parseInt64 x else none) got
     | _ => false)
  | "hrandfield" =>
    (match hashOf c db key with
     | .ok (some (_, h)) =>
       let count := if argv.length > 2 then parseInt64 (argv.getD 2 []) else none
       if argv.length > 3 then
         match asPairs got, count with
         | some ps, some n =>
           ps.all (fun p => match p with
             | .array [.bulk f, .bulk v] => alookup f h == some v
             | _ => false) &&
           (if n ≥ 0 then ps.length == min n.toNat h.length else ps.length == n.natAbs)
         | _, _ => (match got with | .array [] => true | _ => false)
       else validateRandom (h.map (·.1)) count got
     | _ => false)
  | "keys" =>
    let live := db.liveKeys c.now
    let pat := argv.getD 1 []
    if !isAscii pat || !live.all isAscii then (match got with | .array _ => true | _ => false)
    else
      let want := live.filter (glob pat ·)
      (match got with
       | .array xs => multisetEq xs (want.map .bulk)
       | _ => false)
  | "randomkey" =>
    let ks := if c.q.rawLookupSeesExpired then db.keys.map (·.1) else db.liveKeys c.now
    (match got with
     | .nil => ks.isEmpty
     | .bulk b => ks.contains b
     | _ => false)
  | "scan" =>
    (match got with
     | .array [.bulk cur, .array xs] =>
       (parseDec cur).isSome && xs.all fun x => match x with | .bulk b => (db.liveKeys c.now).contains b | _ => false
     | _ => false)
  | "sscan" =>
    (match setOf c db key, got with
     | .ok (some (_, m)), .array [.bulk cur, .array xs] =>
       (parseDec cur).isSome && xs.all fun x => match x with | .bulk b => m.contains b | _ => false
     | _, _ => false)
  | "hscan" =>
    (match hashOf c db key, got with
     | .ok (some (_, h)), .array [.bulk cur, .array xs] =>
       (parseDec cur).isSome &&
       (match asPairs (.array xs) with
        | some ps => ps.all fun p => match p with
          | .array [.bulk f, .bulk v] => alookup f h == some v
          | _ => false
        | none => xs.isEmpty)
     | _, _ => false)
  | "hello" =>
    (match asPairs got with
     | some ps => ps.any fun p => match p with
       | .array [.bulk k, .int v] => k == sb "proto" && v == (s.session conn).resp
       | _ => false
     | none => false)
  | "clientinfo" | "clientlist" =>
    (match got with | .bulk _ | .verbatim _ _ | .simple _ => true | _ => false)
  | _ => true

/-! ### canonical state dump, same format as the `VerifStore.Dump` hook -/

def sortStr (l : List String) : List String := (l.toArray.qsort (· < ·)).toList

def payloadText : Val → String
  | .str b => "s:" ++ toHex b
  | .list l => "l:" ++ ",".intercalate (l.map toHex)
  | .hash h => "h:" ++ ",".intercalate (sortStr (h.map fun (f, v) => toHex f ++ "=" ++ toHex v))
  | .set s => "z:" ++ ",".intercalate (sortStr (s.map toHex))
  | .corrupt f => "corrupt:" ++ toString f

structure DumpKey where
  key : String
  ty : String
  id : Nat
  exp : Int
  payload : String
  deriving Repr, BEq

structure DumpDb where
  idx : Nat
  dirty : Bool
  count : Nat
  keys : List DumpKey
  deriving Repr

def modelDump (s : State) : List DumpDb :=
  let tbl := (s.table.toArray.qsort (fun a b => a.1 < b.1)).toList
  tbl.map fun (idx, ref) =>
    let db := s.getDb ref
    let ks := db.keys.map fun (k, e) =>
      { key := hexOrDash k, ty := String.fromUTF8! (ByteArray.mk e.val.typeName.toArray), id := e.id,
        exp := (match e.exp with | none => -1 | some d => d), payload := payloadText e.val : DumpKey }
    { idx := idx, dirty := db.dirty, count := db.keys.length,
      keys := (ks.toArray.qsort (fun a b => a.key < b.key)).toList }

def parseKV (w : String) (pre : String) : Option String :=
  if w.startsWith pre then some (w.drop pre.length).toString else none

def parseImplDump (text : String) : Option (List DumpDb) :=
  let lines := (text.splitOn "\n").filter (· ≠ "")
  let rec go (ls : List String) (cur : Option DumpDb) (acc : List DumpDb) : Option (List DumpDb) :=
    match ls with
    | [] => some (match cur with | some d => acc ++ [{ d with keys := d.keys.reverse }] | none => acc)
    | l :: r =>
      let ws := words l
      match ws with
      | "db" :: idx :: d :: _nid :: cnt :: _ =>
        let acc' := match cur with | some dd => acc ++ [{ dd with keys := dd.keys.reverse }] | none => acc
        match idx.toNat?, parseKV d "dirty=", (parseKV cnt "count=").bind (·.toNat?) with
        | some i, some dv, some cn => go r (some { idx := i, dirty := dv == "1", count := cn, keys := [] }) acc'
        | _, _, _ => none
      | k :: ty :: id :: ex :: rest =>
        match cur, (parseKV id "id=").bind (·.toNat?), (parseKV ex "exp=").bind (·.toInt?) with
        | some d, some i, some e =>
          let dk : DumpKey := { key := k, ty := ty, id := i, exp := e, payload := " ".intercalate rest }
          go r (some { d with keys := dk :: d.keys }) acc
        | _, _, _ => none
      | _ => none
  go lines none []

/-- deadline tolerance: the implementation reads its own clock between t0 and t1 of the step that set the
    deadline; `slack` is the longest step of the sequence so far (on a loaded machine a step has been seen
    to take 70 ms, which a fixed 50 ms tolerance reported as a difference) -/
def expClose (slack a b : Int) : Bool :=
  if a < 0 || b < 0 then a == b
  else if a == 0 || b == 0 then a == b
  else decide (((a - b).natAbs : Int) ≤ 50000000 + slack)

structure IdMemo where
  impl : List (Nat × String × Nat) := []
  model : List (Nat × String × Nat) := []

def compareDumps (m i : List DumpDb) (memo : IdMemo) (slack : Int := 0) : Option String × IdMemo :=
  let newMemo : IdMemo :=
    { impl := i.flatMap fun d => d.keys.map fun k => (d.idx, k.key, k.id),
      model := m.flatMap fun d => d.keys.map fun k => (d.idx, k.key, k.id) }
  let fail (s : String) : Option String × IdMemo := (some s, newMemo)
  if m.map (·.idx) != i.map (·.idx) then fail s!"database tables differ: model {m.map (·.idx)} impl {i.map (·.idx)}" else
  let rec dbs : List (DumpDb × DumpDb) → Option String
    | [] => none
    | (a, b) :: r =>
      if a.dirty != b.dirty then some s!"db {a.idx}: dirty flag model={a.dirty} impl={b.dirty}"
      else if a.count != b.count then some s!"db {a.idx}: stored key count model={a.count} impl={b.count}"
      else if a.keys.map (·.key) != b.keys.map (·.key) then
        some s!"db {a.idx}: key sets differ model={a.keys.map (·.key)} impl={b.keys.map (·.key)}"
      else
        let rec ks : List (DumpKey × DumpKey) → Option String
          | [] => none
          | (x, y) :: t =>
            if x.ty != y.ty then some s!"db {a.idx} key {x.key}: type model={x.ty} impl={y.ty}"
            else if x.payload != y.payload then some s!"db {a.idx} key {x.key}: value model={x.payload} impl={y.payload}"
            else if !expClose slack x.exp y.exp then some s!"db {a.idx} key {x.key}: deadline model={x.exp} impl={y.exp}"
            else
              -- version ids are compared relatively: changed-since-last-dump must agree
              let pm := (memo.model.find? fun (d, k, _) => d == a.idx && k == x.key).map (·.2.2)
              let pi := (memo.impl.find? fun (d, k, _) => d == a.idx && k == x.key).map (·.2.2)
              match pm, pi with
              | some om, some oi =>
                if (om == x.id) != (oi == y.id) then
                  some s!"db {a.idx} key {x.key}: version changed model={om != x.id} impl={oi != y.id}"
                else ks t
              | _, _ => ks t
        match ks (a.keys.zip b.keys) with
        | some e => some e
        | none => dbs r
  (dbs (m.zip i), newMemo)

/-! ### main loop -/

structure DState where
  q : Quirks := Quirks.current
  st : State := State.init
  memo : IdMemo := {}
  dict : Dict := Dict.empty
  slack : Int := 0

def dictLayout (d : Dict) : String :=
  let occ := (d.buckets.toList.zip (List.range d.buckets.size)).filterMap fun (o, i) =>
    match o with
    | some it => some (toString i ++ ":" ++ hexOrDash it.key)
    | none => none
  s!"size={d.size} count={d.count} " ++ " ".intercalate occ

def hexArgs (ws : List String) : Option (List Bytes) := ws.mapM fromHex

def allQuirkOff (q : Quirks) : List (String × Quirks) :=
  [("D04", { q with appendDropsTtl := false }), ("D05", { q with getrangeMissingNil := false }),
   ("D06", { q with setrangeEmptyCreates := false }), ("D07", { q with decrbyMinAccepted := false }),
   ("D09", { q with lmoveSelfSingleLoses := false }), ("D10", { q with hincrbyCmpDelta := false }),
   ("D11", { q with hsetnxOverwrites := false }), ("D23", { q with abortedExecStaysMulti := false }),
   ("D24", { q with queueErrorNoAbort := false }), ("D27", { q with inplaceKeepsVersion := false }),
   ("D22", { q with rawLookupSeesExpired := false }), ("D42", { q with flushDetaches := false }),
   ("D43", { q with helloAnyVersion := false }), ("D03", { q with resp2Scalars := false }),
   ("D47", { q with dirtyIncomplete := false }), ("D44", { q with bitcountClamp := false }),
   ("D37", { q with bitcountEmptyCrash := false }), ("D45", { q with bfSignedOverflow64 := false }),
   ("D46", { q with bfSetOverflowUsesSum := false }), ("D63", { q with unlinkKeepsObject := false }),
   ("D60", { q with getexNoOptPersists := false }), ("D62", { q with bitposPartialEnd := false }),
   ("D61", { q with bitopEmptyCreates := false }), ("D68", { q with lcsRunes := false }), ("D88", { q with sintercardLimitGreedy := false }),
   ("D25", { q with multiBindsAtQueue := false })]

/-- observable part of an outcome, for "did this quirk matter on this step" -/
def outKey (o : Out) : String :=
  showV (normErr o.reply) ++ "#" ++ toString (o.crash.isSome) ++ "#" ++
    toString (repr (modelDump o.st)) ++ toString (repr ((o.st.sessions.map fun (i, s) => (i, s.dbIdx, s.resp, s.queue.isSome, s.watches.map fun (w : Nat × Bytes × Nat) => (w.1, w.2.1.map UInt8.toNat, w.2.2)))))

def step (d : DState) (line : String) : DState × String :=
  match words line with
  | ["Q", m] => ({ d with q := if m == "none" then Quirks.none else Quirks.current }, "ok")
  | ["R"] => ({ d with st := State.init, memo := {}, slack := 0 }, "ok")
  | "MW" :: keys :: acts => (d, runScenario acts (parseNatList keys))
  | "MWO" :: keys :: steps => (d, runScenarioObs steps (parseNatList keys))
  | ["N", conn, cid] =>
    match conn.toNat?, cid.toInt? with
    | some c, some i => ({ d with st := d.st.connect c i }, "ok")
    | _, _ => (d, "bad-op")
  | "X" :: conn :: t0 :: t1 :: reply :: _argc :: args =>
    match conn.toNat?, t0.toInt?, hexArgs args with
    | some c, some now0, some argv =>
      let implV : Option Value :=
        if reply == "PANIC" then none
        else match fromHex reply with
          | some bytes => (match parse bytes with
            | .ok v [] _ => some v
            | _ => none)
          | none => none
      if reply != "PANIC" && implV.isNone then (d, "DIFF unparsable-reply " ++ reply)
      else
        -- The implementation read its clock somewhere between t0 and t1. When a deadline lies in
        -- between (the machine was busy: the generator keeps 4 ms away from every deadline it set), the
        -- command is judged at the instant whose outcome the implementation's reply matches.
        let now1 := (t1.toInt?).getD now0
        -- a deadline set by an earlier step is known only up to that step's duration (the implementation
        -- added the time to live to its own clock reading): `slack` is the longest step seen so far
        let slack : Int := max d.slack (now1 - now0)
        let d := { d with slack := slack }
        let ctx0 : Ctx := { q := d.q, now := now0, impl := implV }
        let deadlineIn (lo hi : Int) : Bool := d.st.heap.any fun (_, db) => db.keys.any fun (_, e) =>
          match e.exp with | some dl => decide (lo ≤ dl) && decide (dl ≤ hi) | none => false
        -- … or a whole second begins between the two clock readings: the commands that take a deadline as a
        -- Unix time in seconds (EXAT, EXPIREAT) add the difference to the clock reading, second by second
        let straddles : Bool := deadlineIn now0 now1 || decide (now0 / 1000000000 != now1 / 1000000000)
        let lowStraddles : Bool := deadlineIn (now0 - slack) (now0 - 1)
        let oA := dispatch ctx0 d.st c argv
        -- a reply the model does not determine (`.custom`) is checked by its validator at the candidate instant
        let okCustomAt (t : Int) (o : Out) (g : Value) : Bool := match o.hint with
          | .custom "hello" => validate "hello" { ctx0 with now := t } o.st c argv g
          | .custom nm => validate nm { ctx0 with now := t } d.st c argv g
          | _ => true
        let fitsAt (t : Int) (o : Out) : Bool := match implV with
          | some g => o.crash.isNone && (!o.judged || (replyMatches o.hint o.reply g && okCustomAt t o g))
          | none => o.crash.isSome
        let cands : List (Int × Out) :=
          [(now0, oA)] ++
          (if straddles then [(now1, dispatch { ctx0 with now := now1 } d.st c argv)] else []) ++
          (if lowStraddles then [(now0 - slack - 1, dispatch { ctx0 with now := now0 - slack - 1 } d.st c argv)] else [])
        let good := cands.filter fun (t, o) => fitsAt t o
        let timing := straddles || lowStraddles
        -- near a deadline the outcome may depend on which side of it the implementation's clock reading
        -- fell: when no instant explains the reply, or two do with different resulting states, the
        -- sequence is inconclusive from here on
        let ambiguous : Bool := timing &&
          (good.isEmpty || good.any fun (_, o) => outKey o != outKey (good.head!).2)
        if ambiguous then (d, "ambig") else
        let (now, o) := match good with | g :: _ => g | [] => (now0, oA)
        let ctx : Ctx := { ctx0 with now := now }
        -- which known deviations mattered on this step?
        let specO := dispatch { ctx with q := Quirks.none } d.st c argv
        let hits : List String :=
          if outKey specO == outKey o then []
          else (allQuirkOff d.q).filterMap fun (name, q') =>
            if outKey (dispatch { ctx with q := q' } d.st c argv) != outKey o then some name else none
        let tag := if hits.isEmpty then "" else " quirks=" ++ ",".intercalate hits
        match o.crash, implV with
        | some site, none => ({ d with st := o.st }, "crash-ok " ++ site ++ tag)
        | some site, some g => (d, s!"DIFF model-predicts-crash({site}) got={showV g}")
        | none, none => (d, s!"DIFF unexpected-panic expected={showV o.reply}")
        | none, some g =>
          if !o.judged then ({ d with st := o.st }, "skip")
          else
            let okHint := replyMatches o.hint o.reply g
            let okCustom := match o.hint with
              | .custom "hello" => validate "hello" ctx o.st c argv g
              | .custom nm => validate nm ctx d.st c argv g
              | _ => true
            if okHint && okCustom then ({ d with st := o.st }, "ok" ++ tag)
            else (d, s!"DIFF expected={showV o.reply} got={showV g}")
    | _, _, _ => (d, "bad-op")
  | "M" :: conn :: t0 :: _argc :: args =>
    match conn.toNat?, t0.toInt?, hexArgs args with
    | some c, some now, some argv =>
      let o := dispatch { q := d.q, now := now } d.st c argv
      ({ d with st := o.st }, (match o.crash with | some s => "crash " ++ s | none => "reply " ++ toHex (ser o.reply)))
    | _, _, _ => (d, "bad-op")
  | ["C", hex] =>
    match fromHex hex with
    | some bytes =>
      match parseImplDump (String.fromUTF8! (ByteArray.mk bytes.toArray)) with
      | some impl =>
        let (res, memo) := compareDumps (modelDump d.st) impl d.memo d.slack
        ({ d with memo := memo }, match res with | none => "ok" | some e => "STATE-DIFF " ++ e)
      | none => (d, "bad-dump")
    | none => (d, "bad-op")
  | ["P", hex] =>
    match fromHex hex with
    | some bytes =>
      (d, match parseRes bytes with
        | .complete v n => s!"ok {n} {toHex (ser v)}"
        | .invalid => "invalid"
        | .crash site => "crash " ++ site)
    | none => (d, "bad-op")
  | ["W", hex] =>
    match fromHex hex with
    | some bytes =>
      (d, match parseRes bytes with
        | .complete v _ => "ok " ++ toHex (ser (down v))
        | .invalid => "invalid"
        | .crash site => "crash " ++ site)
    | none => (d, "bad-op")
  | ["V"] =>
    -- `dataStoreSet.save`: every database of the table is written when dirty, then marked clean
    let refs := d.st.table.map (·.2)
    let st' := { d.st with heap := d.st.heap.map fun (r, db) => if refs.contains r then (r, { db with dirty := false }) else (r, db) }
    ({ d with st := st' }, "ok")
  | ["DN"] => ({ d with dict := Dict.empty }, "ok")
  | ["DS", hex] =>
    match fromHex hex with
    | some key =>
      match d.dict.store key (hash32 key) with
      | .ok d' => ({ d with dict := d' }, dictLayout d')
      | .crash => (d, "crash")
    | none => (d, "bad-op")
  | ["DR", hex] =>
    match fromHex hex with
    | some key =>
      let (d', r) := d.dict.remove key (hash32 key)
      ({ d with dict := d' }, (if r then "1 " else "0 ") ++ dictLayout d')
    | none => (d, "bad-op")
  | ["DC", cur, cnt] =>
    match cur.toNat?, cnt.toNat? with
    | some c, some n =>
      let (c', ks) := d.dict.scan (fun _ => true) c n
      (d, toString c' ++ " " ++ " ".intercalate (ks.map hexOrDash))
    | _, _ => (d, "bad-op")
  | ["DH", hex] =>
    match fromHex hex with
    | some key => (d, toString (sipHash key).toNat)
    | none => (d, "bad-op")
  | ["G", p, cnd] =>
    match fromHex p, fromHex cnd with
    | some a, some b => (d, if glob a b then "1" else "0")
    | _, _ => (d, "bad-op")
  | _ => (d, "bad-op")

partial def loop (h : IO.FS.Stream) (out : IO.FS.Stream) (d : DState) : IO Unit := do
  let line ← h.getLine
  if line.isEmpty then return ()
  let (d', ans) := step d (line.trimAscii.toString)
  out.putStrLn ans
  out.flush
  loop h out d'

def main : IO Unit := do
  loop (← IO.getStdin) (← IO.getStdout) {}
