module verif/harness

go 1.22

require (
	github.com/jimsnab/go-lane v1.30.0
	github.com/jimsnab/go-redisemu v0.0.0
)

require (
	github.com/anishathalye/porcupine v1.3.0
	github.com/google/uuid v1.6.0 // indirect
)

replace github.com/jimsnab/go-redisemu => /repo
