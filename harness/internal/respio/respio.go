// Package respio is a strict client-side RESP2/RESP3 reader: it returns the exact bytes of one
// complete, well-formed reply or an error describing what is malformed.
package respio

import (
	"bufio"
	"fmt"
	"strconv"
)

// ReadValue consumes exactly one RESP value from r and returns its raw bytes.
func ReadValue(r *bufio.Reader) ([]byte, error) {
	var out []byte
	err := readInto(r, &out, 0)
	return out, err
}

func readLine(r *bufio.Reader, out *[]byte) ([]byte, error) {
	var line []byte
	for {
		b, err := r.ReadByte()
		if err != nil {
			return nil, err
		}
		*out = append(*out, b)
		line = append(line, b)
		n := len(line)
		if n >= 2 && line[n-2] == '\r' && line[n-1] == '\n' {
			return line[:n-2], nil
		}
		if b == '\n' {
			return nil, fmt.Errorf("bare LF inside a line: %q", line)
		}
		if n > 1<<20 {
			return nil, fmt.Errorf("line longer than 1 MiB")
		}
	}
}

func readInto(r *bufio.Reader, out *[]byte, depth int) error {
	if depth > 64 {
		return fmt.Errorf("nesting too deep")
	}
	line, err := readLine(r, out)
	if err != nil {
		return err
	}
	if len(line) == 0 {
		return fmt.Errorf("empty line where a type byte was expected")
	}
	body := string(line[1:])
	switch line[0] {
	case '+', '-':
		for _, c := range line[1:] {
			if c == '\r' || c == '\n' {
				return fmt.Errorf("CR or LF inside a simple string")
			}
		}
		return nil
	case ':':
		if _, err := strconv.ParseInt(body, 10, 64); err != nil {
			return fmt.Errorf("bad integer %q", body)
		}
		return nil
	case ',', '(':
		if body == "" {
			return fmt.Errorf("empty number")
		}
		return nil
	case '#':
		if body != "t" && body != "f" {
			return fmt.Errorf("bad boolean %q", body)
		}
		return nil
	case '_':
		if body != "" {
			return fmt.Errorf("bad null")
		}
		return nil
	case '$', '!', '=':
		n, err := strconv.ParseInt(body, 10, 64)
		if err != nil {
			return fmt.Errorf("bad bulk length %q", body)
		}
		if n < 0 {
			if line[0] == '$' && n == -1 {
				return nil
			}
			return fmt.Errorf("negative bulk length %d", n)
		}
		buf := make([]byte, n+2)
		for i := range buf {
			b, err := r.ReadByte()
			if err != nil {
				return err
			}
			buf[i] = b
		}
		*out = append(*out, buf...)
		if buf[n] != '\r' || buf[n+1] != '\n' {
			return fmt.Errorf("bulk of %d bytes not followed by CR LF", n)
		}
		return nil
	case '*', '~', '>':
		n, err := strconv.ParseInt(body, 10, 64)
		if err != nil {
			return fmt.Errorf("bad aggregate length %q", body)
		}
		if n < 0 {
			if line[0] == '*' && n == -1 {
				return nil
			}
			return fmt.Errorf("negative aggregate length")
		}
		for i := int64(0); i < n; i++ {
			if err := readInto(r, out, depth+1); err != nil {
				return err
			}
		}
		return nil
	case '%', '|':
		n, err := strconv.ParseInt(body, 10, 64)
		if err != nil || n < 0 {
			return fmt.Errorf("bad map length %q", body)
		}
		for i := int64(0); i < 2*n; i++ {
			if err := readInto(r, out, depth+1); err != nil {
				return err
			}
		}
		return nil
	}
	return fmt.Errorf("unknown type byte %q", line[0])
}

// Resp2Only reports whether raw (one well-formed value) uses only RESP2 type bytes.
func Resp2Only(raw []byte) bool {
	i := 0
	for i < len(raw) {
		switch raw[i] {
		case '+', '-', ':', '*':
		case '$':
		default:
			return false
		}
		// find end of line
		j := i
		for j+1 < len(raw) && !(raw[j] == '\r' && raw[j+1] == '\n') {
			j++
		}
		if raw[i] == '$' {
			n, _ := strconv.ParseInt(string(raw[i+1:j]), 10, 64)
			if n >= 0 {
				i = j + 2 + int(n) + 2
				continue
			}
		}
		i = j + 2
	}
	return true
}

func EncodeCmd(argv [][]byte) []byte {
	out := []byte(fmt.Sprintf("*%d\r\n", len(argv)))
	for _, a := range argv {
		out = append(out, []byte(fmt.Sprintf("$%d\r\n", len(a)))...)
		out = append(out, a...)
		out = append(out, '\r', '\n')
	}
	return out
}
