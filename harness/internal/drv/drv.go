// Package drv talks to the Lean model driver over its line protocol.
package drv

import (
	"bufio"
	"encoding/hex"
	"fmt"
	"io"
	"os"
	"os/exec"
	"strings"
	"time"
)

type Driver struct {
	cmd *exec.Cmd
	in  io.WriteCloser
	out *bufio.Reader
	Log []string // every request line sent since the last Reset (for replay files)
}

func DriverPath() string {
	if p := os.Getenv("VERIF_DRIVER"); p != "" {
		return p
	}
	return "/verif/lean/.lake/build/bin/driver"
}

func Start() (*Driver, error) {
	cmd := exec.Command(DriverPath())
	in, err := cmd.StdinPipe()
	if err != nil {
		return nil, err
	}
	out, err := cmd.StdoutPipe()
	if err != nil {
		return nil, err
	}
	cmd.Stderr = os.Stderr
	if err := cmd.Start(); err != nil {
		return nil, err
	}
	return &Driver{cmd: cmd, in: in, out: bufio.NewReaderSize(out, 1<<20)}, nil
}

func (d *Driver) Close() {
	d.in.Close()
	d.cmd.Wait()
}

func (d *Driver) Ask(line string) (string, error) {
	d.Log = append(d.Log, line)
	if _, err := io.WriteString(d.in, line+"\n"); err != nil {
		return "", err
	}
	type res struct {
		s   string
		err error
	}
	ch := make(chan res, 1)
	go func() {
		ans, err := d.out.ReadString('\n')
		ch <- res{ans, err}
	}()
	select {
	case r := <-ch:
		if r.err != nil {
			return "", fmt.Errorf("driver died: %v", r.err)
		}
		return strings.TrimRight(r.s, "\n"), nil
	case <-time.After(60 * time.Second):
		d.cmd.Process.Kill()
		return "", fmt.Errorf("driver did not answer within 60 s on: %.200s", line)
	}
}

func (d *Driver) MustAsk(line string) string {
	ans, err := d.Ask(line)
	if err != nil {
		panic(err)
	}
	return ans
}

func (d *Driver) Reset(quirks string) {
	d.Log = nil
	d.MustAsk("R")
	if quirks != "" {
		d.MustAsk("Q " + quirks)
	}
}

func Hex(b []byte) string {
	if len(b) == 0 {
		return "-"
	}
	return hex.EncodeToString(b)
}

func HexArgs(argv [][]byte) string {
	parts := make([]string, len(argv))
	for i, a := range argv {
		parts[i] = Hex(a)
	}
	return strings.Join(parts, " ")
}

// X formats an execute-and-compare request
func X(conn int, t0, t1 int64, reply []byte, panicked bool, argv [][]byte) string {
	r := Hex(reply)
	if panicked {
		r = "PANIC"
	}
	return fmt.Sprintf("X %d %d %d %s %d %s", conn, t0, t1, r, len(argv), HexArgs(argv))
}
