// Package gen generates command sequences for the correspondence harness.
// Every random choice comes from one PRNG so that a seed replays exactly.
package gen

import (
	"fmt"
	"math/rand"
	"strconv"
	"strings"
	"time"
)

type G struct {
	R       *rand.Rand
	Fam     string
	Keys    []string
	Dangers []int64 // instants (unix ns) near which no command may be issued
	Conns   int
	// Malformed is the share (0..100) of deliberately malformed commands
	Malformed int
	// Script: steps to issue next, verbatim, before anything else is generated (a directed sequence
	// started by one of the templates). `VERIF-SLEEP <ms>` is a pseudo-operation of the corr tool.
	Script []Step
}

type Step struct {
	Conn int
	Argv []string
}

// Hash is the table hash of the emulator (set by the tools that link the emulator); with it the
// generator can build collections whose bucket table has a chosen shape. Random names never do that:
// the table holds one item per bucket and grows until all names are separated, so it is always sparse.
var Hash func(string) uint64

var denseCache = map[int][]string{}

// denseNames returns one name per bucket of a table of 2^k buckets (index = bucket number)
func denseNames(k int) []string {
	if n, ok := denseCache[k]; ok {
		return n
	}
	size := 1 << k
	names := make([]string, size)
	found := 0
	for i := 0; found < size && i < 1000000; i++ {
		name := fmt.Sprintf("d%d_%d", k, i)
		h := uint32(Hash(name)) & uint32(size-1)
		// bucket = the k low bits reversed
		b := 0
		for j := 0; j < k; j++ {
			if h&(1<<j) != 0 {
				b |= 1 << (k - 1 - j)
			}
		}
		if names[b] == "" {
			names[b] = name
			found++
		}
	}
	denseCache[k] = names
	return names
}

// Shaped returns member names that fill a table of 32 or 64 buckets in one of several shapes: all
// buckets, the low half densely and one bucket of each pair above it (halving becomes possible as soon
// as the low half has been emptied), or one bucket of every pair.
func (g *G) Shaped() []string {
	if Hash == nil {
		return g.membersN(2, 6)
	}
	k := 5 + g.R.Intn(2)
	names := denseNames(k)
	size := 1 << k
	var out []string
	shape := g.R.Intn(4)
	for b := 0; b < size; b++ {
		take := false
		switch shape {
		case 0:
			take = g.R.Intn(10) < 8
		case 1:
			if b <= size/2 {
				take = g.R.Intn(10) < 9
			} else {
				take = b%2 == 0 && g.R.Intn(10) < 8
			}
		case 2:
			take = (b%2 == g.R.Intn(2)) && g.R.Intn(10) < 8
		default:
			if b >= size/2 {
				take = g.R.Intn(10) < 9
			} else {
				take = b%2 == 1 && g.R.Intn(10) < 7
			}
		}
		if take {
			out = append(out, names[b])
		}
	}
	g.R.Shuffle(len(out), func(i, j int) { out[i], out[j] = out[j], out[i] })
	return out
}

// ShapedSome returns a few names of the shaped pools (to remove, look up, or keep in a second operand)
func (g *G) ShapedSome() []string {
	if Hash == nil {
		return g.membersN(1, 3)
	}
	names := denseNames(5 + g.R.Intn(2))
	n := 1 + g.R.Intn(6)
	if g.R.Intn(3) == 0 {
		n = len(names)/2 + g.R.Intn(len(names)/2)
	}
	out := make([]string, 0, n)
	for i := 0; i < n; i++ {
		out = append(out, names[g.R.Intn(len(names))])
	}
	return out
}

func New(seed int64, fam string) *G {
	g := &G{R: rand.New(rand.NewSource(seed)), Fam: fam, Conns: 1, Malformed: 8}
	g.Keys = []string{"k0", "k1", "k2", "k3", "k4", "k5"}
	if fam == "tx" || fam == "db" || fam == "mixed" {
		g.Conns = 3
	}
	return g
}

func (g *G) pick(xs ...string) string { return xs[g.R.Intn(len(xs))] }

func (g *G) Key() string {
	if g.R.Intn(40) == 0 {
		return g.pick("", "a key", "k\r\n0", "\xff\xfe", "kéy")
	}
	return g.Keys[g.R.Intn(len(g.Keys))]
}

var longVal = strings.Repeat("0123456789abcdef", 600) // 9600 bytes: larger than the 8 KiB read buffer

func (g *G) Val() string {
	switch g.R.Intn(24) {
	case 0:
		return ""
	case 1, 2, 3:
		return g.pick("a", "b", "c", "d", "e")
	case 4:
		return g.pick("abc", "abd", "xbc", "hello world", "aXbXc")
	case 5, 6:
		return strconv.Itoa(g.R.Intn(200) - 100)
	case 7:
		return g.pick("9223372036854775807", "-9223372036854775808", "9223372036854775806", "-9223372036854775807", "4294967296", "2147483648")
	case 8:
		return g.pick("+7", "007", " 5", "5 ", "0x10", "1e3", "-0", "--1", "")
	case 9:
		return g.pick("3.5", "1.25", "-0.5", "10.0", "0.1", "100")
	case 10:
		return g.pick("\r\n", "a\r\nb", "\x00", "\x00\xff\x01", "\r", "\n+OK\r\n")
	case 11:
		return g.pick("h\xc3\xa9llo", "\xc3\x28", "\xe2\x82", "\xf0\x9f\x98\x80")
	case 12:
		if g.R.Intn(6) == 0 {
			return longVal
		}
		return strings.Repeat("xy", 150)
	case 13:
		b := make([]byte, 1+g.R.Intn(6))
		g.R.Read(b)
		return string(b)
	default:
		return g.pick("a", "b", "c", "v1", "v2", "1", "2", "3")
	}
}

func (g *G) Member() string {
	if g.R.Intn(12) == 0 {
		return g.Val()
	}
	return g.pick("a", "b", "c", "d", "e", "f", "1", "2", "3")
}

// Elem: list elements come from a very small alphabet so that duplicates and matches are common
func (g *G) Elem() string {
	if g.R.Intn(10) == 0 {
		return g.Member()
	}
	return g.pick("a", "b", "c")
}

func (g *G) Int() string {
	switch g.R.Intn(12) {
	case 0:
		return "0"
	case 1:
		return g.pick("1", "-1")
	case 2:
		return g.pick("2", "-2", "3", "-3")
	case 3:
		return g.pick("5", "-5", "10", "-10", "100", "-100")
	case 4:
		return g.pick("9223372036854775807", "-9223372036854775808", "9223372036854775806", "-9223372036854775807")
	case 5:
		return g.pick("2147483647", "2147483648", "4294967295", "4294967296", "-2147483648", "-2147483649")
	default:
		return strconv.Itoa(g.R.Intn(14) - 6)
	}
}

func (g *G) SmallInt() string { return strconv.Itoa(g.R.Intn(12) - 4) }

func (g *G) kw(s string) string {
	switch g.R.Intn(4) {
	case 0:
		return strings.ToLower(s)
	case 1:
		// mixed case
		b := []byte(strings.ToLower(s))
		for i := range b {
			if g.R.Intn(2) == 0 && b[i] >= 'a' && b[i] <= 'z' {
				b[i] -= 32
			}
		}
		return string(b)
	default:
		return strings.ToUpper(s)
	}
}

// Expiry arguments. Relative short deadlines are recorded as danger instants.
func (g *G) expiryOpt(allowKeep, allowPersist bool) []string {
	now := time.Now().UnixNano()
	switch g.R.Intn(9) {
	case 0:
		return []string{g.kw("EX"), strconv.Itoa(100 + g.R.Intn(1000))}
	case 1:
		ms := 15 + g.R.Intn(40)
		g.Dangers = append(g.Dangers, now+int64(ms)*1e6)
		return []string{g.kw("PX"), strconv.Itoa(ms)}
	case 2:
		return []string{g.kw("PX"), strconv.Itoa(100000 + g.R.Intn(100000))}
	case 3:
		return []string{g.kw("EXAT"), strconv.FormatInt(now/1e9+100+int64(g.R.Intn(1000)), 10)}
	case 4:
		at := now/1e6 + 20 + int64(g.R.Intn(40))
		g.Dangers = append(g.Dangers, at*1e6)
		return []string{g.kw("PXAT"), strconv.FormatInt(at, 10)}
	case 5:
		return []string{g.kw(g.pick("EX", "PX", "EXAT", "PXAT")), g.pick("0", "-1", "-100")}
	case 6:
		if allowKeep {
			return []string{g.kw("KEEPTTL")}
		}
		if allowPersist {
			return []string{g.kw("PERSIST")}
		}
		return nil
	case 7:
		// already in the past (absolute)
		return []string{g.kw("PXAT"), strconv.FormatInt(now/1e6-5000, 10)}
	}
	return nil
}

// WaitSafe sleeps until the present is not within guard of any recorded danger instant.
func (g *G) WaitSafe() {
	const guard = int64(4e6)
	for {
		now := time.Now().UnixNano()
		wait := int64(0)
		keep := g.Dangers[:0]
		for _, d := range g.Dangers {
			if d < now-guard {
				continue // passed
			}
			keep = append(keep, d)
			if d-guard <= now && now <= d+guard {
				if w := d + guard - now + 1e5; w > wait {
					wait = w
				}
			}
		}
		g.Dangers = keep
		if wait == 0 {
			return
		}
		time.Sleep(time.Duration(wait))
	}
}

type tmpl struct {
	fams string // space separated families this template belongs to
	w    int
	f    func(g *G) []string
}

func shuffle(g *G, groups [][]string) []string {
	g.R.Shuffle(len(groups), func(i, j int) { groups[i], groups[j] = groups[j], groups[i] })
	var out []string
	for _, gr := range groups {
		out = append(out, gr...)
	}
	return out
}

func (g *G) keysN(lo, hi int) []string {
	n := lo + g.R.Intn(hi-lo+1)
	out := make([]string, n)
	for i := range out {
		out[i] = g.Key()
	}
	return out
}

var templates []tmpl

func add(fams string, w int, f func(g *G) []string) {
	templates = append(templates, tmpl{fams, w, f})
}

func cat(a []string, b ...string) []string { return append(a, b...) }

func init() {
	// ---- strings
	add("str expiry mixed", 10, func(g *G) []string {
		a := []string{"SET", g.Key(), g.Val()}
		var groups [][]string
		if g.R.Intn(3) == 0 {
			groups = append(groups, []string{g.kw(g.pick("NX", "XX"))})
		}
		if g.R.Intn(4) == 0 {
			groups = append(groups, []string{g.kw("GET")})
		}
		if g.R.Intn(3) == 0 {
			if e := g.expiryOpt(true, false); e != nil {
				groups = append(groups, e)
			}
		}
		return append(a, shuffle(g, groups)...)
	})
	add("str mixed", 3, func(g *G) []string { return []string{"SETNX", g.Key(), g.Val()} })
	// every single-type family meets keys of the other types under the names it uses (WRONGTYPE paths, type checks
	// that come before or after another test)
	add("list hash set bits", 2, func(g *G) []string {
		k := g.Key()
		switch g.R.Intn(5) {
		case 0:
			return []string{"SET", k, g.Val()}
		case 1:
			return []string{"RPUSH", k, "a", "b"}
		case 2:
			return []string{"HSET", k, "f", "v"}
		case 3:
			return []string{"SADD", k, "m"}
		}
		return []string{"DEL", k}
	})
	// every string command also meets keys of another type: a list, hash or set under a name the family uses, then SET
	// with a combination of its options (NX / XX, GET, a deadline, KEEPTTL) and the commands that read it back
	add("str", 3, func(g *G) []string {
		k := g.Key()
		var mk []string
		switch g.R.Intn(3) {
		case 0:
			mk = []string{"RPUSH", k, "a", "b"}
		case 1:
			mk = []string{"HSET", k, "f", "v"}
		default:
			mk = []string{"SADD", k, "m"}
		}
		set := []string{"SET", k, g.Val()}
		var groups [][]string
		if g.R.Intn(3) != 0 {
			groups = append(groups, []string{g.kw(g.pick("NX", "XX"))})
		}
		if g.R.Intn(2) == 0 {
			groups = append(groups, []string{g.kw("GET")})
		}
		if g.R.Intn(3) == 0 {
			groups = append(groups, []string{g.kw(g.pick("EX", "PX")), "100000"})
		} else if g.R.Intn(3) == 0 {
			groups = append(groups, []string{g.kw("KEEPTTL")})
		}
		set = append(set, shuffle(g, groups)...)
		g.Script = append(g.Script, Step{1, mk}, Step{1, set}, Step{1, []string{"TYPE", k}},
			Step{1, []string{g.pick("GETDEL", "STRLEN", "INCR", "GETEX", "GET"), k}},
			Step{1, []string{"TYPE", k}})
		if g.R.Intn(2) == 0 {
			return []string{"DEL", k}
		}
		return []string{"TYPE", k}
	})
	add("str expiry mixed", 2, func(g *G) []string {
		return []string{"SETEX", g.Key(), g.pick("100", "1000", "0", "-1", "50"), g.Val()}
	})
	add("str expiry mixed", 2, func(g *G) []string {
		ms := 15 + g.R.Intn(30)
		if g.R.Intn(2) == 0 {
			g.Dangers = append(g.Dangers, time.Now().UnixNano()+int64(ms)*1e6)
			return []string{"PSETEX", g.Key(), strconv.Itoa(ms), g.Val()}
		}
		return []string{"PSETEX", g.Key(), g.pick("100000", "0", "-5"), g.Val()}
	})
	add("str list hash set keys bits expiry mixed tx db", 8, func(g *G) []string { return []string{"GET", g.Key()} })
	add("str mixed", 3, func(g *G) []string { return []string{"GETSET", g.Key(), g.Val()} })
	add("str mixed", 2, func(g *G) []string { return []string{"GETDEL", g.Key()} })
	add("str expiry mixed", 3, func(g *G) []string {
		return cat([]string{"GETEX", g.Key()}, g.expiryOpt(false, true)...)
	})
	add("str mixed", 3, func(g *G) []string { return cat([]string{"MGET"}, g.keysN(1, 4)...) })
	add("str mixed tx", 4, func(g *G) []string {
		a := []string{g.pick("MSET", "MSETNX", "MSETNX")}
		for i := 0; i < 1+g.R.Intn(3); i++ {
			a = append(a, g.Key(), g.Val())
		}
		return a
	})
	add("str expiry mixed tx", 5, func(g *G) []string { return []string{"APPEND", g.Key(), g.Val()} })
	// the empty string as a value of its own: written, appended to, appended, ranged over
	add("str keys mixed", 2, func(g *G) []string {
		switch g.R.Intn(5) {
		case 0:
			return []string{"SET", g.Key(), ""}
		case 1, 2:
			return []string{"APPEND", g.Key(), ""}
		case 3:
			return []string{"SETRANGE", g.Key(), "0", ""}
		default:
			return []string{"GETRANGE", g.Key(), "0", "-1"}
		}
	})
	add("str mixed", 3, func(g *G) []string { return []string{"STRLEN", g.Key()} })
	add("str mixed", 6, func(g *G) []string {
		return []string{g.pick("GETRANGE", "SUBSTR"), g.Key(), g.Int(), g.Int()}
	})
	add("str mixed", 5, func(g *G) []string {
		off := g.pick("0", "1", "2", "5", "10", "300", "-1", "-9223372036854775808", "4611686018427387904")
		return []string{"SETRANGE", g.Key(), off, g.Val()}
	})
	add("str mixed tx expiry", 5, func(g *G) []string { return []string{g.pick("INCR", "DECR"), g.Key()} })
	add("str mixed tx", 6, func(g *G) []string { return []string{g.pick("INCRBY", "DECRBY"), g.Key(), g.Int()} })
	add("str mixed", 3, func(g *G) []string {
		return []string{"INCRBYFLOAT", g.Key(), g.pick("1.5", "-0.25", "10", "0.1", "2.0", "-3", "100.125", "inf", "-inf", "nan", "1e21", "5e-7", "1e300", "-3e21")}
	})
	add("str", 2, func(g *G) []string { return []string{"LCS", g.Key(), g.Key(), g.kw("LEN")} })

	// ---- lists
	add("list mixed tx expiry keys", 12, func(g *G) []string {
		a := []string{g.pick("LPUSH", "RPUSH", "RPUSH", "LPUSHX", "RPUSHX"), g.Key()}
		for i := 0; i < 1+g.R.Intn(4); i++ {
			a = append(a, g.Elem())
		}
		return a
	})
	add("list mixed tx", 7, func(g *G) []string {
		a := []string{g.pick("LPOP", "RPOP"), g.Key()}
		if g.R.Intn(2) == 0 {
			a = append(a, g.pick("0", "1", "2", "3", "10", "-1", "9223372036854775807"))
		}
		return a
	})
	add("list mixed", 3, func(g *G) []string { return []string{"LLEN", g.Key()} })
	// look an element up by position, change the list at one end (the looked-up element may leave and
	// others arrive), look positions up again: whatever a lookup left behind must not outlive the change.
	// Issued verbatim as one sequence.
	add("list", 3, func(g *G) []string {
		k := g.Key()
		n := 2 + g.R.Intn(5)
		first := []string{"RPUSH", k}
		for i := 0; i < n; i++ {
			first = append(first, fmt.Sprintf("p%d", i))
		}
		pos := g.R.Intn(n)
		idx := strconv.Itoa(pos)
		if g.R.Intn(3) == 0 {
			idx = strconv.Itoa(pos - n) // the same position counted from the tail
		}
		lookup := [][]string{{"LINDEX", k, idx}, {"LSET", k, idx, "set"}, {"LRANGE", k, idx, idx}}[g.R.Intn(3)]
		st := []Step{{1, []string{"DEL", k}}, {1, first}, {1, lookup}}
		tail := g.R.Intn(4) > 0
		pops := 1 + g.R.Intn(n-1)
		if tail && g.R.Intn(2) == 0 {
			pops = n - pos // the looked-up element itself leaves
			if pops >= n {
				pops = n - 1
			}
		}
		switch g.R.Intn(4) {
		case 0:
			st = append(st, Step{1, []string{g.pick("LMPOP"), "1", k, map[bool]string{true: "RIGHT", false: "LEFT"}[tail], "COUNT", strconv.Itoa(pops)}})
		case 1:
			if tail {
				st = append(st, Step{1, []string{"LTRIM", k, "0", strconv.Itoa(n - pops - 1)}})
			} else {
				st = append(st, Step{1, []string{"LTRIM", k, strconv.Itoa(pops), "-1"}})
			}
		default:
			for i := 0; i < pops; i++ {
				st = append(st, Step{1, []string{map[bool]string{true: "RPOP", false: "LPOP"}[tail], k}})
			}
		}
		pushes := 1 + g.R.Intn(4)
		push := []string{map[bool]string{true: "RPUSH", false: "LPUSH"}[tail || g.R.Intn(3) == 0], k}
		for i := 0; i < pushes; i++ {
			push = append(push, fmt.Sprintf("q%d", i))
		}
		st = append(st, Step{1, push})
		for d := -1; d <= 1; d++ {
			if pos+d >= 0 {
				st = append(st, Step{1, []string{"LINDEX", k, strconv.Itoa(pos + d)}})
			}
		}
		st = append(st, Step{1, []string{"LSET", k, strconv.Itoa(pos), "again"}}, Step{1, []string{"LRANGE", k, "0", "-1"}},
			Step{1, []string{"LRANGE", k, strconv.Itoa(pos), strconv.Itoa(pos + 1)}})
		g.Script = append(g.Script, st...)
		return []string{"LLEN", k}
	})
	add("list mixed", 5, func(g *G) []string { return []string{"LINDEX", g.Key(), g.Int()} })
	add("list mixed keys expiry", 8, func(g *G) []string { return []string{"LRANGE", g.Key(), g.Int(), g.Int()} })
	add("list mixed", 5, func(g *G) []string { return []string{"LSET", g.Key(), g.SmallInt(), g.Elem()} })
	add("list mixed", 5, func(g *G) []string {
		return []string{"LINSERT", g.Key(), g.kw(g.pick("BEFORE", "AFTER")), g.Elem(), g.Elem()}
	})
	add("list mixed", 5, func(g *G) []string {
		return []string{"LREM", g.Key(), g.pick("0", "1", "-1", "2", "-2", "5", "-5", g.Int()), g.Elem()}
	})
	add("list mixed", 5, func(g *G) []string { return []string{"LTRIM", g.Key(), g.Int(), g.Int()} })
	add("list mixed", 6, func(g *G) []string {
		a := []string{"LPOS", g.Key(), g.Elem()}
		var groups [][]string
		if g.R.Intn(3) > 0 {
			groups = append(groups, []string{g.kw("RANK"), g.pick("1", "2", "-1", "-2", "-1", "-3", "0", "3", "-9223372036854775808")})
		}
		if g.R.Intn(2) == 0 {
			groups = append(groups, []string{g.kw("COUNT"), g.pick("0", "1", "2", "5", "-1")})
		}
		if g.R.Intn(2) == 0 {
			groups = append(groups, []string{g.kw("MAXLEN"), g.pick("0", "1", "2", "3", "4", "-1", "100")})
		}
		return append(a, shuffle(g, groups)...)
	})
	add("list mixed tx", 6, func(g *G) []string {
		return []string{"LMOVE", g.Key(), g.Key(), g.kw(g.pick("LEFT", "RIGHT")), g.kw(g.pick("LEFT", "RIGHT"))}
	})
	add("list mixed", 3, func(g *G) []string { return []string{"RPOPLPUSH", g.Key(), g.Key()} })
	add("list mixed", 4, func(g *G) []string {
		ks := g.keysN(1, 3)
		nk := strconv.Itoa(len(ks))
		if g.R.Intn(8) == 0 {
			nk = g.pick("0", "1", "5", "-1")
		}
		a := append([]string{"LMPOP", nk}, ks...)
		a = append(a, g.kw(g.pick("LEFT", "RIGHT")))
		if g.R.Intn(2) == 0 {
			a = append(a, g.kw("COUNT"), g.pick("1", "2", "3", "0", "-1"))
		}
		return a
	})
	add("list mixed tx", 3, func(g *G) []string {
		// blocking forms: in a single-threaded run they either find data or time out quickly
		switch g.R.Intn(4) {
		case 0:
			return append(append([]string{g.pick("BLPOP", "BRPOP")}, g.keysN(1, 3)...), "0.01")
		case 1:
			return []string{"BLMOVE", g.Key(), g.Key(), g.pick("LEFT", "RIGHT"), g.pick("LEFT", "RIGHT"), "0.01"}
		case 2:
			ks := g.keysN(1, 3)
			a := append([]string{"BLMPOP", "0.01", g.pick(strconv.Itoa(len(ks)), strconv.Itoa(len(ks)), strconv.Itoa(len(ks)), "1", "0")}, ks...)
			a = append(a, g.kw(g.pick("LEFT", "RIGHT")))
			if g.R.Intn(2) == 0 {
				a = append(a, g.kw("COUNT"), g.pick("1", "2", "10", "0"))
			}
			return a
		default:
			return []string{"BRPOPLPUSH", g.Key(), g.Key(), "0.01"}
		}
	})

	// ---- hashes
	add("hash mixed tx keys expiry", 12, func(g *G) []string {
		a := []string{g.pick("HSET", "HSET", "HMSET"), g.Key()}
		for i := 0; i < 1+g.R.Intn(3); i++ {
			a = append(a, g.Member(), g.Val())
		}
		return a
	})
	add("hash mixed", 4, func(g *G) []string { return []string{"HSETNX", g.Key(), g.Member(), g.Val()} })
	add("hash mixed", 6, func(g *G) []string { return []string{"HGET", g.Key(), g.Member()} })
	add("hash mixed", 3, func(g *G) []string {
		return append([]string{"HMGET", g.Key()}, g.membersN(1, 3)...)
	})
	add("hash mixed keys expiry", 5, func(g *G) []string { return []string{"HGETALL", g.Key()} })
	add("hash mixed", 3, func(g *G) []string { return []string{g.pick("HKEYS", "HVALS", "HLEN"), g.Key()} })
	add("hash mixed", 3, func(g *G) []string { return []string{g.pick("HEXISTS", "HSTRLEN"), g.Key(), g.Member()} })
	add("hash mixed tx", 6, func(g *G) []string {
		return append([]string{"HDEL", g.Key()}, g.membersN(1, 3)...)
	})
	add("hash mixed tx", 8, func(g *G) []string { return []string{"HINCRBY", g.Key(), g.Member(), g.Int()} })
	add("hash mixed", 3, func(g *G) []string {
		return []string{"HINCRBYFLOAT", g.Key(), g.Member(), g.pick("1.5", "-0.25", "10", "0.1", "2.0", "1.5", "inf", "-inf", "+Infinity", "nan", "1e21", "1e20", "5e-7", "1e300", "-3e21")}
	})
	add("hash mixed", 4, func(g *G) []string {
		a := []string{"HRANDFIELD", g.Key()}
		if g.R.Intn(3) > 0 {
			a = append(a, g.pick("0", "1", "2", "3", "10", "-1", "-3", "-10", "12", "13", "14", "17", "22", "26", "30", "-25"))
			if g.R.Intn(2) == 0 {
				a = append(a, g.kw("WITHVALUES"))
			}
		}
		return a
	})
	// a collection of a known size and counts just below it (a draw of "nearly everything"), several times each
	add("hash set", 2, func(g *G) []string {
		k := g.Key()
		n := 14 + g.R.Intn(28)
		hash := g.Fam == "hash" || (g.Fam != "set" && g.R.Intn(2) == 0)
		fill := []string{"SADD", k}
		if hash {
			fill = []string{"HSET", k}
		}
		for i := 0; i < n; i++ {
			fill = append(fill, fmt.Sprintf("r%d", i))
			if hash {
				fill = append(fill, "v")
			}
		}
		st := []Step{{1, []string{"DEL", k}}, {1, fill}}
		for _, c := range []int{n - 2, n - 3, n - 2, n * 9 / 10, n - 4, n - 2, n - 1, n, n + 3} {
			if hash {
				st = append(st, Step{1, []string{"HRANDFIELD", k, strconv.Itoa(c)}})
			} else {
				st = append(st, Step{1, []string{"SRANDMEMBER", k, strconv.Itoa(c)}})
			}
		}
		g.Script = append(g.Script, st...)
		return []string{"EXISTS", k}
	})
	add("hash mixed", 2, func(g *G) []string {
		a := []string{"HSCAN", g.Key(), "0"}
		if g.R.Intn(2) == 0 {
			a = append(a, g.kw("COUNT"), g.pick("1", "5", "100", "0"))
		}
		return a
	})

	// many fields at once: grows the one-item-per-bucket table through several doublings; the bulk
	// deletes shrink it again
	add("hash", 5, func(g *G) []string {
		a := []string{"HSET", g.Key()}
		for i := 0; i < 6+g.R.Intn(10); i++ {
			a = append(a, fmt.Sprintf("f%d", g.R.Intn(48)), g.pick("v", "w", "1", "h\xc3\xa9"))
		}
		return a
	})
	add("hash", 6, func(g *G) []string {
		a := []string{"HDEL", g.Key()}
		for i := 0; i < 6+g.R.Intn(14); i++ {
			a = append(a, fmt.Sprintf("f%d", g.R.Intn(48)))
		}
		return a
	})
	add("hash", 4, func(g *G) []string {
		return []string{g.pick("HGET", "HEXISTS", "HSTRLEN"), g.Key(), fmt.Sprintf("f%d", g.R.Intn(48))}
	})
	add("hash", 3, func(g *G) []string {
		a := []string{"HSET", g.Key()}
		for _, f := range g.Shaped() {
			a = append(a, f, g.pick("v", "w", "1"))
		}
		return a
	})
	add("hash", 3, func(g *G) []string { return append([]string{"HDEL", g.Key()}, g.ShapedSome()...) })
	add("hash", 2, func(g *G) []string { return append([]string{"HMGET", g.Key()}, g.ShapedSome()...) })

	// ---- sets
	add("set", 5, func(g *G) []string {
		a := []string{"SADD", g.Key()}
		for i := 0; i < 6+g.R.Intn(10); i++ {
			a = append(a, fmt.Sprintf("m%d", g.R.Intn(48)))
		}
		return a
	})
	add("set", 6, func(g *G) []string {
		a := []string{"SREM", g.Key()}
		for i := 0; i < 6+g.R.Intn(14); i++ {
			a = append(a, fmt.Sprintf("m%d", g.R.Intn(48)))
		}
		return a
	})
	add("set", 3, func(g *G) []string {
		return []string{"SISMEMBER", g.Key(), fmt.Sprintf("m%d", g.R.Intn(48))}
	})
	// collections whose bucket table is densely or regularly filled (see Shaped)
	add("set", 4, func(g *G) []string { return append([]string{"SADD", g.Key()}, g.Shaped()...) })
	add("set", 3, func(g *G) []string { return append([]string{"SADD", g.Key()}, g.ShapedSome()...) })
	add("set", 3, func(g *G) []string { return append([]string{"SREM", g.Key()}, g.ShapedSome()...) })
	add("set", 1, func(g *G) []string { return []string{"DEL", g.Key()} })
	add("set mixed tx keys expiry", 12, func(g *G) []string {
		return append([]string{"SADD", g.Key()}, g.membersN(1, 4)...)
	})
	add("set mixed tx", 8, func(g *G) []string {
		return append([]string{"SREM", g.Key()}, g.membersN(1, 3)...)
	})
	add("set mixed", 3, func(g *G) []string { return []string{"SCARD", g.Key()} })
	add("set mixed", 4, func(g *G) []string { return []string{"SISMEMBER", g.Key(), g.Member()} })
	add("set mixed", 3, func(g *G) []string {
		return append([]string{"SMISMEMBER", g.Key()}, g.membersN(1, 3)...)
	})
	add("set mixed keys expiry", 5, func(g *G) []string { return []string{"SMEMBERS", g.Key()} })
	add("set mixed tx", 7, func(g *G) []string { return []string{"SMOVE", g.Key(), g.Key(), g.Member()} })
	add("set mixed", 8, func(g *G) []string {
		return append([]string{g.pick("SINTER", "SUNION", "SDIFF")}, g.keysN(1, 4)...)
	})
	add("set mixed tx", 8, func(g *G) []string {
		return append([]string{g.pick("SINTERSTORE", "SUNIONSTORE", "SDIFFSTORE"), g.Key()}, g.keysN(1, 3)...)
	})
	add("set mixed", 5, func(g *G) []string {
		ks := g.keysN(1, 3)
		nk := strconv.Itoa(len(ks))
		if g.R.Intn(8) == 0 {
			nk = g.pick("0", "1", "4", "-1")
		}
		a := append([]string{"SINTERCARD", nk}, ks...)
		if g.R.Intn(2) == 0 {
			a = append(a, g.kw("LIMIT"), g.pick("0", "1", "2", "10"))
		}
		return a
	})
	add("set mixed", 4, func(g *G) []string {
		a := []string{"SRANDMEMBER", g.Key()}
		if g.R.Intn(3) > 0 {
			a = append(a, g.pick("0", "1", "2", "3", "10", "-1", "-3", "-10", "12", "13", "14", "17", "22", "26", "30", "-25"))
		}
		return a
	})
	add("set mixed", 2, func(g *G) []string { return []string{"SSCAN", g.Key(), "0"} })

	// ---- keys
	add("keys mixed tx str list hash set expiry", 5, func(g *G) []string {
		return append([]string{g.pick("DEL", "DEL", "UNLINK")}, g.keysN(1, 3)...)
	})
	add("keys mixed str list hash set expiry", 4, func(g *G) []string {
		return append([]string{g.pick("EXISTS", "TOUCH")}, g.keysN(1, 3)...)
	})
	add("keys mixed str list hash set expiry bits", 4, func(g *G) []string { return []string{"TYPE", g.Key()} })
	add("keys mixed tx expiry", 6, func(g *G) []string {
		return []string{g.pick("RENAME", "RENAMENX"), g.Key(), g.Key()}
	})
	// SORT: options in any order; the patterns point at the generator's own keys (elements 0…5 -> k0…k5)
	add("keys mixed list set expiry", 5, func(g *G) []string {
		var groups [][]string
		if g.R.Intn(3) == 0 {
			groups = append(groups, []string{g.kw("BY"), g.pick("k*", "k*", "w_*", "*")})
		}
		if g.R.Intn(3) == 0 {
			groups = append(groups, []string{g.kw("LIMIT"), g.pick("0", "1", "2", "-1", "5"), g.pick("1", "2", "10", "-1", "0", "9223372036854775807")})
		}
		for i := 0; i < g.R.Intn(3); i++ {
			groups = append(groups, []string{g.kw("GET"), g.pick("#", "k*", "nostar", "*")})
		}
		if g.R.Intn(2) == 0 {
			groups = append(groups, []string{g.kw(g.pick("ASC", "DESC", "DESC"))})
		}
		if g.R.Intn(2) == 0 {
			groups = append(groups, []string{g.kw("ALPHA")})
		}
		if g.R.Intn(4) == 0 {
			groups = append(groups, []string{g.kw("STORE"), g.Key()})
		}
		return cat([]string{"SORT", g.Key()}, shuffle(g, groups)...)
	})
	// numeric collections, so that SORT without ALPHA has something to order
	add("keys list set", 3, func(g *G) []string {
		a := []string{g.pick("RPUSH", "SADD"), g.Key()}
		for i := 0; i < 2+g.R.Intn(5); i++ {
			a = append(a, g.pick("0", "1", "2", "3", "4", "5", "10", "-1", "2.5", "1e1", "03"))
		}
		return a
	})
	add("keys mixed expiry", 6, func(g *G) []string {
		a := []string{"COPY", g.Key(), g.Key()}
		if g.R.Intn(2) == 0 {
			a = append(a, g.kw("REPLACE"))
		}
		if g.R.Intn(15) == 0 {
			a = append(a, g.kw("DB"), "1")
		}
		return a
	})
	add("keys mixed expiry", 4, func(g *G) []string {
		return []string{"KEYS", g.pick("*", "k*", "k?", "k[0-3]", "k[012]", "?1", "*1", "k\\0", "", "k0", "[k]*", "*[15]")}
	})
	add("keys mixed expiry", 2, func(g *G) []string { return []string{g.pick("RANDOMKEY", "DBSIZE")} })
	add("keys mixed", 2, func(g *G) []string {
		a := []string{"SCAN", "0"}
		if g.R.Intn(2) == 0 {
			a = append(a, g.kw("COUNT"), g.pick("1", "100", "0"))
		}
		if g.R.Intn(3) == 0 {
			a = append(a, g.kw("TYPE"), g.pick("string", "list", "hash", "set", "zset"))
		}
		return a
	})

	// ---- expiry
	add("expiry keys mixed tx str list hash set", 8, func(g *G) []string {
		now := time.Now().UnixNano()
		var a []string
		switch g.R.Intn(6) {
		case 0:
			a = []string{"EXPIRE", g.Key(), g.pick("100", "1000", "-1", "0", "5000")}
		case 1:
			ms := 15 + g.R.Intn(40)
			g.Dangers = append(g.Dangers, now+int64(ms)*1e6)
			a = []string{"PEXPIRE", g.Key(), strconv.Itoa(ms)}
		case 2:
			a = []string{"PEXPIRE", g.Key(), g.pick("100000", "200000", "-1", "0")}
		case 3:
			a = []string{"EXPIREAT", g.Key(), strconv.FormatInt(now/1e9+int64(g.R.Intn(2000))-50, 10)}
		case 4:
			at := now/1e6 + 20 + int64(g.R.Intn(40))
			g.Dangers = append(g.Dangers, at*1e6)
			a = []string{"PEXPIREAT", g.Key(), strconv.FormatInt(at, 10)}
		default:
			a = []string{"PEXPIREAT", g.Key(), strconv.FormatInt(now/1e6+100000+int64(g.R.Intn(100000)), 10)}
		}
		if g.R.Intn(2) == 0 {
			a = append(a, g.kw(g.pick("NX", "XX", "GT", "LT")))
		}
		return a
	})
	add("expiry keys mixed str list hash set", 8, func(g *G) []string {
		return []string{g.pick("TTL", "PTTL", "EXPIRETIME", "PEXPIRETIME", "PERSIST"), g.Key()}
	})

	// ---- bits
	add("bits mixed", 8, func(g *G) []string {
		return []string{"SETBIT", g.Key(), g.pick("0", "1", "7", "8", "9", "15", "100", "-1", strconv.Itoa(g.R.Intn(64))), g.pick("0", "1", "1", "2")}
	})
	add("bits mixed", 5, func(g *G) []string {
		return []string{"GETBIT", g.Key(), g.pick("0", "1", "7", "8", "15", "100", "-1", "9223372036854775807", strconv.Itoa(g.R.Intn(64)))}
	})
	add("bits mixed", 8, func(g *G) []string {
		a := []string{"BITCOUNT", g.Key()}
		if g.R.Intn(3) > 0 {
			a = append(a, g.SmallInt(), g.SmallInt())
			if g.R.Intn(2) == 0 {
				a = append(a, g.kw(g.pick("BYTE", "BIT")))
			}
		}
		return a
	})
	add("bits mixed", 8, func(g *G) []string {
		a := []string{"BITPOS", g.Key(), g.pick("0", "1", "1", "2")}
		if g.R.Intn(3) > 0 {
			a = append(a, g.SmallInt())
			if g.R.Intn(2) == 0 {
				a = append(a, g.SmallInt())
				if g.R.Intn(2) == 0 {
					a = append(a, g.kw(g.pick("BYTE", "BIT")))
				}
			}
		}
		return a
	})
	add("bits mixed", 6, func(g *G) []string {
		op := g.pick("AND", "OR", "XOR", "NOT")
		a := []string{"BITOP", g.kw(op), g.Key()}
		if op == "NOT" && g.R.Intn(5) > 0 {
			return append(a, g.Key())
		}
		return append(a, g.keysN(1, 3)...)
	})
	add("bits mixed", 14, func(g *G) []string {
		a := []string{g.pick("BITFIELD", "BITFIELD", "BITFIELD", "BITFIELD_RO"), g.Key()}
		ro := a[0] == "BITFIELD_RO"
		for i := 0; i < 1+g.R.Intn(3); i++ {
			enc := g.pick("u1", "u4", "u8", "u16", "u63", "i1", "i4", "i8", "i16", "i32", "i64", "u7", "i13",
				fmt.Sprintf("u%d", 1+g.R.Intn(63)), fmt.Sprintf("i%d", 1+g.R.Intn(64)))
			if g.R.Intn(30) == 0 {
				enc = g.pick("u64", "i65", "u0", "x8", "i", "")
			}
			off := g.pick("0", "1", "3", "7", "8", "9", "13", "16", "#0", "#1", "#2", strconv.Itoa(g.R.Intn(40)))
			if g.R.Intn(40) == 0 {
				off = g.pick("-1", "#-1", "abc")
			}
			if ro || g.R.Intn(3) == 0 {
				a = append(a, g.kw("GET"), enc, off)
				continue
			}
			if g.R.Intn(2) == 0 {
				a = append(a, g.kw("OVERFLOW"), g.kw(g.pick("WRAP", "SAT", "FAIL")))
			}
			val := g.pick("0", "1", "-1", "5", "100", "127", "128", "-128", "-129", "255", "256", "200", "-200",
				"32767", "32768", "9223372036854775807", "-9223372036854775808", strconv.Itoa(g.R.Intn(600)-300))
			a = append(a, g.kw(g.pick("SET", "INCRBY")), enc, off, val)
		}
		return a
	})
	add("bits", 6, func(g *G) []string {
		b := make([]byte, g.R.Intn(5))
		g.R.Read(b)
		return []string{"SET", g.Key(), string(b)}
	})

	// ---- transactions
	add("tx", 10, func(g *G) []string { return []string{"MULTI"} })
	add("tx", 12, func(g *G) []string { return []string{"EXEC"} })
	add("tx", 3, func(g *G) []string { return []string{"DISCARD"} })
	add("tx", 8, func(g *G) []string { return append([]string{"WATCH"}, g.keysN(1, 2)...) })
	add("tx", 2, func(g *G) []string { return []string{"UNWATCH"} })
	add("tx", 2, func(g *G) []string { return []string{g.pick("NOSUCHCMD", "GET", "SET k", "LPUSH k")} })
	// commands a server refuses while queueing: container commands with a subcommand that does not
	// exist or without one, besides the unknown command and the wrong arity above
	add("tx", 2, func(g *G) []string {
		return []string{g.pick("CLIENT NOSUCH", "COMMAND NOSUCH", "CLIENT", "client nosuch arg", "COMMAND NOSUCH get", "CLIENT GETNAME")}
	})
	// a watched key expires between WATCH and EXEC and nothing else happens to its database in the meantime
	// (reads only): EXEC must answer null. The whole sequence is issued verbatim.
	add("tx expiry", 1, func(g *G) []string {
		k, c, o := g.Key(), 1+g.R.Intn(g.Conns), 1+g.R.Intn(g.Conns)
		ms := 8 + g.R.Intn(20)
		// (the deadline is set when the first step is issued, a few steps from now: a generous band)
		g.Dangers = append(g.Dangers, time.Now().UnixNano()+int64(ms)*1e6, time.Now().UnixNano()+int64(ms+2)*1e6)
		if g.R.Intn(2) == 0 {
			g.Script = append(g.Script,
				Step{o, []string{"SET", k, "soon-gone", "PX", strconv.Itoa(ms)}},
				Step{c, []string{"WATCH", k}},
				Step{c, []string{"MULTI"}},
				Step{c, []string{"SET", g.Key(), "by-the-transaction"}},
				Step{o, []string{g.pick("GET", "EXISTS", "TTL", "STRLEN"), k}},
				Step{1, []string{"VERIF-SLEEP", strconv.Itoa(ms + 12)}},
				Step{o, []string{g.pick("GET", "EXISTS", "PTTL"), k}},
				Step{c, []string{"EXEC"}})
		} else {
			// nothing watched: the commands queued BEFORE the deadline run AFTER it, and see the key gone
			g.Script = append(g.Script,
				Step{o, []string{"SET", k, "7", "PX", strconv.Itoa(ms)}},
				Step{c, []string{"MULTI"}},
				Step{c, []string{"GET", k}},
				Step{c, []string{g.pick("EXISTS", "PTTL", "STRLEN", "TYPE"), k}},
				Step{c, g.pickArgv([]string{"INCR", k}, []string{"APPEND", k, "1"}, []string{"SETNX", k, "1"}, []string{"GETDEL", k})},
				Step{c, []string{"DBSIZE"}},
				Step{1, []string{"VERIF-SLEEP", strconv.Itoa(ms + 12)}},
				Step{c, []string{"EXEC"}},
				Step{o, []string{"GET", k}})
		}
		return []string{"DISCARD"}
	})
	// a flush is a modification of every watched key of the database(s) it empties
	add("tx", 1, func(g *G) []string { return []string{g.pick("FLUSHDB", "FLUSHALL")} })
	add("mixed", 1, func(g *G) []string { return []string{g.pick("MULTI", "EXEC", "DISCARD", "UNWATCH")} })

	// ---- databases / session
	add("db mixed", 8, func(g *G) []string {
		return []string{"SELECT", g.pick("0", "1", "2", "15", "16", "-1", "1", "0", "abc")}
	})
	add("db", 3, func(g *G) []string { return []string{g.pick("FLUSHDB", "FLUSHALL")} })
	// the modifiers: whatever they say, the flush is done when the reply is sent
	add("db tx", 2, func(g *G) []string {
		return []string{g.pick("FLUSHDB", "FLUSHALL"), g.kw(g.pick("ASYNC", "SYNC", "ASYNC"))}
	})
	// transactions that change the selected database half-way (D25) and flush what is selected by then
	add("db", 4, func(g *G) []string { return []string{"MULTI"} })
	add("db", 5, func(g *G) []string { return []string{"EXEC"} })
	add("db", 1, func(g *G) []string { return []string{"DISCARD"} })
	add("db", 4, func(g *G) []string { return []string{"GET", g.Key()} })
	add("tx", 2, func(g *G) []string { return []string{"SELECT", g.pick("0", "1", "2", "1", "0", "16")} })
	add("db mixed", 3, func(g *G) []string { return []string{"DBSIZE"} })
	add("db", 10, func(g *G) []string { return []string{"SET", g.Key(), g.Val()} })
	add("db mixed tx", 2, func(g *G) []string {
		return []string{"HELLO", g.pick("2", "3", "3", "2", "4", "1", "0")}
	})
	add("db mixed", 2, func(g *G) []string {
		switch g.R.Intn(4) {
		case 0:
			return []string{"CLIENT", g.kw("SETNAME"), g.pick("alice", "bob", "a b", "")}
		case 1:
			return []string{"CLIENT", g.kw("GETNAME")}
		case 2:
			return []string{"CLIENT", g.kw("ID")}
		default:
			return []string{g.pick("PING", "ECHO"), g.Val()}
		}
	})
}

func (g *G) pickArgv(opts ...[]string) []string { return opts[g.R.Intn(len(opts))] }

func (g *G) membersN(lo, hi int) []string {
	n := lo + g.R.Intn(hi-lo+1)
	out := make([]string, n)
	for i := range out {
		out[i] = g.Member()
	}
	return out
}

func inFam(t tmpl, fam string) bool {
	for _, f := range strings.Fields(t.fams) {
		if f == fam {
			return true
		}
		// the expiry family applies every data command to keys in every lifetime phase
		if fam == "expiry" && (f == "str" || f == "list" || f == "hash" || f == "set" || f == "keys" || f == "bits") {
			return true
		}
	}
	return false
}

// Next produces the next command (argv[0] is the command name) and the connection to send it on.
func (g *G) Next() (conn int, argv []string, malformed bool) {
	if len(g.Script) > 0 {
		st := g.Script[0]
		g.Script = g.Script[1:]
		return st.Conn, st.Argv, false
	}
	total := 0
	for _, t := range templates {
		if inFam(t, g.Fam) {
			total += t.w
		}
	}
	n := g.R.Intn(total)
	var chosen tmpl
	for _, t := range templates {
		if !inFam(t, g.Fam) {
			continue
		}
		if n < t.w {
			chosen = t
			break
		}
		n -= t.w
	}
	argv = chosen.f(g)
	// "SET k" style templates carry the arguments in one string
	if strings.Contains(argv[0], " ") && len(argv) == 1 {
		argv = strings.Fields(argv[0])
	}
	switch g.R.Intn(3) {
	case 0:
		argv[0] = strings.ToLower(argv[0])
	case 1:
		argv[0] = g.kw(argv[0])
	}
	blocking := false
	switch strings.ToLower(argv[0]) {
	case "blpop", "brpop", "blmove", "brpoplpush", "blmpop":
		// a mutated timeout could become 0 = wait forever in a single-threaded run
		blocking = true
	}
	if !blocking && g.R.Intn(100) < g.Malformed {
		malformed = true
		switch g.R.Intn(5) {
		case 0:
			if len(argv) > 1 {
				argv = argv[:len(argv)-1]
			}
		case 1:
			argv = append(argv, g.pick("extra", "NX", "0", ""))
		case 2:
			if len(argv) > 1 {
				i := 1 + g.R.Intn(len(argv)-1)
				argv[i] = g.pick("notanumber", "", "1.5", "NaN", "--", "9223372036854775808")
			}
		case 3:
			argv = argv[:1]
		case 4:
			if len(argv) > 2 {
				i := 1 + g.R.Intn(len(argv)-1)
				argv = append(argv[:i], argv[i+1:]...)
			}
		}
	}
	conn = 1 + g.R.Intn(g.Conns)
	return
}
