// codec: ties the Lean RESP parser / serializer / down-conversion to the Go code through the
// hook exports: the same byte strings go to `VerifParse` / `VerifDown` and to the driver's `P` / `W`
// requests; validity, consumed length and the canonical re-serialization must agree.
package main

import (
	"encoding/json"
	"flag"
	"fmt"
	"math/rand"
	"os"
	"strings"
	"time"

	redisemu "github.com/jimsnab/go-redisemu"

	"verif/harness/internal/drv"
)

type G struct {
	r          *rand.Rand
	single     bool // sets and maps get at most one member, so that comparisons do not depend on map order
	extraDepth int
}

func (g *G) pick(xs ...string) string { return xs[g.r.Intn(len(xs))] }

func (g *G) bytes() string {
	switch g.r.Intn(8) {
	case 0:
		return ""
	case 1:
		return g.pick("\r\n", "\r", "\n", "a\r\nb", "\x00\xff")
	case 2:
		b := make([]byte, g.r.Intn(12))
		g.r.Read(b)
		return string(b)
	case 3:
		return strings.Repeat("z", 8190+g.r.Intn(6))
	default:
		return g.pick("SET", "k", "value", "GET", "1", "-5", "hello world")
	}
}

// hasUnordered: the value contains a set / map / attribute aggregate or a double, whose
// re-serialization is not canonical on the Go side (map order, float formatting)
func (g *G) value(depth int, unordered *bool) string {
	n := g.r.Intn(17)
	if g.single && depth < 3 && g.r.Intn(2) == 0 {
		n = 6 + g.r.Intn(3) // nest aggregates inside aggregates: array / set / map
	}
	if depth > 3+g.extraDepth && n >= 6 && n <= 10 {
		n = 0
	}
	switch n {
	case 0, 1, 2:
		s := g.bytes()
		return fmt.Sprintf("$%d\r\n%s\r\n", len(s), s)
	case 3:
		return "+" + g.pick("OK", "PONG", "", "a b") + "\r\n"
	case 4:
		return "-" + g.pick("ERR x", "WRONGTYPE y") + "\r\n"
	case 5:
		return ":" + g.pick("0", "1", "-1", "9223372036854775807", "-9223372036854775808", "+5", "007") + "\r\n"
	case 6:
		k := g.r.Intn(4)
		s := fmt.Sprintf("*%d\r\n", k)
		for i := 0; i < k; i++ {
			s += g.value(depth+1, unordered)
		}
		return s
	case 7:
		k := g.r.Intn(3)
		if g.single {
			k = g.r.Intn(2) // at most one member: the order Go's map iteration gives cannot matter
		} else {
			*unordered = true
		}
		s := fmt.Sprintf("~%d\r\n", k)
		for i := 0; i < k; i++ {
			s += g.value(depth+1, unordered)
		}
		return s
	case 8:
		k := g.r.Intn(3)
		if g.single {
			k = g.r.Intn(2)
		} else {
			*unordered = true
		}
		s := fmt.Sprintf("%s%d\r\n", g.pick("%", "|"), k)
		for i := 0; i < 2*k; i++ {
			if g.single && i%2 == 0 {
				// the emulator's own maps are keyed by strings; other key kinds are formatted by
				// fmt.Sprintf and are outside what the property speaks about
				b := g.bytes()
				s += fmt.Sprintf("$%d\r\n%s\r\n", len(b), b)
				continue
			}
			s += g.value(depth+1, unordered)
		}
		return s
	case 9:
		k := g.r.Intn(3)
		s := fmt.Sprintf(">%d\r\n+%s\r\n", k+1, g.pick("message", "invalidate"))
		for i := 0; i < k; i++ {
			s += g.value(depth+1, unordered)
		}
		return s
	case 10:
		// streamed forms
		switch g.r.Intn(3) {
		case 0:
			return "$?\r\n;3\r\nabc\r\n;2\r\nde\r\n;0\r\n"
		case 1:
			return "*?\r\n" + g.value(depth+1, unordered) + g.value(depth+1, unordered) + ".\r\n"
		default:
			if !g.single {
				*unordered = true
			}
			if g.single {
				return "%?\r\n+key\r\n" + g.value(depth+1, unordered) + ".\r\n"
			}
			return "%?\r\n" + g.value(depth+1, unordered) + g.value(depth+1, unordered) + ".\r\n"
		}
	case 11:
		*unordered = true
		return "," + g.pick("1.5", "-3", "10", "0.25") + "\r\n"
	case 12:
		return g.pick("#t\r\n", "#f\r\n", "_\r\n", "$-1\r\n", "*-1\r\n")
	case 13:
		s := g.pick("txt:hello", "mkd:# x", "txt:", "txt:a\r\nb")
		return fmt.Sprintf("=%d\r\n%s\r\n", len(s), s)
	case 14:
		s := g.bytes()
		return fmt.Sprintf("!%d\r\n%s\r\n", len(s), s)
	case 15:
		return "(" + g.pick("12345678901234567890123", "-7", "0") + "\r\n"
	default:
		// a command
		k := 1 + g.r.Intn(4)
		s := fmt.Sprintf("*%d\r\n", k)
		for i := 0; i < k; i++ {
			b := g.bytes()
			s += fmt.Sprintf("$%d\r\n%s\r\n", len(b), b)
		}
		return s
	}
}

func (g *G) mutate(s string) string {
	if len(s) == 0 {
		return s
	}
	switch g.r.Intn(9) {
	case 0: // truncate
		return s[:g.r.Intn(len(s))]
	case 1: // drop a byte
		i := g.r.Intn(len(s))
		return s[:i] + s[i+1:]
	case 2: // flip a byte
		b := []byte(s)
		b[g.r.Intn(len(b))] ^= byte(1 << uint(g.r.Intn(8)))
		return string(b)
	case 3: // absurd lengths (small enough not to allocate, or far beyond any allocation limit)
		return g.pick("*", "$", "~", "%", "!", "=", ">", "|") + g.pick("9223372036854775807", "4611686018427387904", "-2", "-9223372036854775808", "99999999999999999999", "1000", "", "abc", "+3") + "\r\n" + s
	case 4: // blank line
		return g.pick("\r\n", "\r\n\r\n", "\n") + s
	case 5: // aggregate as a set member / map key
		return g.pick("~1\r\n*0\r\n", "%1\r\n*1\r\n:1\r\n+v\r\n", "~1\r\n%0\r\n", "|1\r\n~0\r\n:1\r\n", "~?\r\n*0\r\n.\r\n")
	case 6: // negative chunk
		return "$?\r\n;-1\r\n"
	case 7: // trailing garbage
		return s + g.pick("x", "\r\n", "*1\r\n", "$")
	default:
		i := g.r.Intn(len(s))
		return s[:i] + g.pick("\r\n", "0", "-", "\x00") + s[i:]
	}
}

func main() {
	seed := flag.Int64("seed", 1, "seed")
	n := flag.Int("n", 5000, "inputs")
	prop := flag.String("property", "C01", "property")
	out := flag.String("out", "", "stats json")
	replayDir := flag.String("replays", "/verif/replays", "replay dir")
	flag.Parse()
	start := time.Now()
	d, err := drv.Start()
	if err != nil {
		panic(err)
	}
	defer d.Close()
	g := &G{r: rand.New(rand.NewSource(*seed))}
	stats := map[string]int{}
	var samples []string
	fail := func(kind, input, detail string) {
		os.MkdirAll(*replayDir, 0o755)
		path := fmt.Sprintf("%s/%s-codec-%d-%d.json", *replayDir, *prop, *seed, stats["inputs"])
		data, _ := json.MarshalIndent(map[string]any{"property": *prop, "kind": kind, "input_hex": drv.Hex([]byte(input)),
			"input": fmt.Sprintf("%q", input), "detail": detail}, "", " ")
		os.WriteFile(path, data, 0o644)
		fmt.Printf("CODEC-FAIL property=%s replay=%s kind=%s detail=%s\n", *prop, path, kind, detail)
		stats["failures"]++
	}
	for i := 0; i < *n && stats["failures"] == 0; i++ {
		unordered := false
		g.single = i%2 == 1
		g.extraDepth = 0
		if g.single {
			g.extraDepth = 2
		}
		s := g.value(0, &unordered)
		if strings.Contains(s, ",") && !g.single {
			unordered = true
		}
		if !g.single && g.r.Intn(3) == 0 {
			s = g.mutate(s)
			unordered = true // mutated inputs: compare validity and length only
		}
		stats["inputs"]++
		valid, length, canon, p := redisemu.VerifParse([]byte(s))
		ans := d.MustAsk("P " + drv.Hex([]byte(s)))
		f := strings.Fields(ans)
		switch {
		case p != "":
			stats["impl_panic"]++
			if f[0] != "crash" {
				fail("parse", s, fmt.Sprintf("implementation panicked (%s), model says %s", p, ans))
			}
		case f[0] == "crash":
			fail("parse", s, "model predicts a panic, implementation did not: "+ans)
		case f[0] == "invalid":
			stats["invalid"]++
			if valid {
				fail("parse", s, fmt.Sprintf("model rejects, implementation accepts %d bytes", length))
			}
		case f[0] == "ok":
			stats["valid"]++
			if !valid {
				fail("parse", s, "model accepts ("+ans+"), implementation rejects")
			} else if fmt.Sprint(length) != f[1] {
				fail("parse", s, fmt.Sprintf("consumed length: model %s implementation %d", f[1], length))
			} else if !unordered && drv.Hex(canon) != f[2] {
				fail("serialize", s, fmt.Sprintf("re-serialization: model %s implementation %s", f[2], drv.Hex(canon)))
			} else if !unordered {
				stats["canon_compared"]++
				// down-conversion
				dn, ok, p2 := redisemu.VerifDown([]byte(s))
				ans2 := d.MustAsk("W " + drv.Hex([]byte(s)))
				f2 := strings.Fields(ans2)
				if p2 != "" {
					if !strings.Contains(s, ">") {
						fail("down", s, "down-conversion panicked: "+p2)
					}
				} else if ok && f2[0] == "ok" {
					stats["down_compared"]++
					if drv.Hex(dn) != f2[1] {
						fail("down", s, fmt.Sprintf("down-conversion: model %s implementation %s", f2[1], drv.Hex(dn)))
					}
				}
			}
		}
		if len(samples) < 6 && len(s) < 60 {
			samples = append(samples, fmt.Sprintf("%q", s))
		}
	}
	res := map[string]any{"stats": stats, "samples": samples, "wall_s": time.Since(start).Seconds()}
	if *out != "" {
		data, _ := json.MarshalIndent(res, "", " ")
		os.WriteFile(*out, data, 0o644)
	}
	fmt.Printf("codec inputs=%d valid=%d invalid=%d canon=%d down=%d failures=%d wall=%.1fs\n", stats["inputs"], stats["valid"],
		stats["invalid"], stats["canon_compared"], stats["down_compared"], stats["failures"], time.Since(start).Seconds())
	if stats["failures"] > 0 {
		os.Exit(1)
	}
}
