// persist: C19.
// Part A — restart restores the acknowledged state: generated histories over all types and several
//
//	databases, a save (what the periodic saver and shutdown run), more in-place changes, deletions and
//	flushes, a second save, then a restart on the same path: every database must hold exactly the keys,
//	types, values, element order and deadlines the running emulator shows.
//
// Part B — crash atomicity: a callback (verif build tag) copies the persist directory at every stage
//
//	of writing every snapshot file; each copy is loaded by a fresh emulator and must show, per
//	database, either the previous or the new snapshot.
package main

import (
	"encoding/json"
	"flag"
	"fmt"
	"io"
	"math/rand"
	"os"
	"path/filepath"
	"sort"
	"strconv"
	"strings"
	"time"

	redisemu "github.com/jimsnab/go-redisemu"

	"verif/harness/internal/gen"
)

func toArgv(a []string) [][]byte {
	out := make([][]byte, len(a))
	for i, s := range a {
		out[i] = []byte(s)
	}
	return out
}

// parseArray reads a flat RESP2 array of bulk strings
func parseArray(b []byte) []string {
	lines := strings.Split(string(b), "\r\n")
	if len(lines) == 0 || !strings.HasPrefix(lines[0], "*") {
		return nil
	}
	var out []string
	i := 1
	for i < len(lines) {
		if strings.HasPrefix(lines[i], "$") {
			n, _ := strconv.Atoi(lines[i][1:])
			if n < 0 {
				out = append(out, "(nil)")
				i++
				continue
			}
			// the element may itself contain CR LF: rebuild by length
			rest := strings.Join(lines[i+1:], "\r\n")
			if n > len(rest) {
				break
			}
			out = append(out, rest[:n])
			consumed := strings.Count(rest[:n], "\r\n")
			i += 2 + consumed
			continue
		}
		i++
	}
	return out
}

// observe: db index -> key -> "type|content|deadline"
func observe(vs *redisemu.VerifStore) map[int]map[string]string {
	cl := vs.NewClient()
	defer cl.Close()
	do := func(a ...string) []byte { r, _ := cl.Dispatch(toArgv(a)); return r }
	out := map[int]map[string]string{}
	for db := 0; db < 16; db++ {
		do("SELECT", strconv.Itoa(db))
		keys := parseArray(do("KEYS", "*"))
		m := map[string]string{}
		for _, k := range keys {
			ty := strings.TrimSpace(strings.TrimPrefix(string(do("TYPE", k)), "+"))
			var content string
			switch ty {
			case "string":
				content = fmt.Sprintf("%q", do("GET", k))
			case "list":
				content = fmt.Sprintf("%q", do("LRANGE", k, "0", "-1"))
			case "hash":
				kv := parseArray(do("HGETALL", k))
				var pairs []string
				for i := 0; i+1 < len(kv); i += 2 {
					pairs = append(pairs, fmt.Sprintf("%q=%q", kv[i], kv[i+1]))
				}
				sort.Strings(pairs)
				content = strings.Join(pairs, ",")
			case "set":
				ms := parseArray(do("SMEMBERS", k))
				sort.Strings(ms)
				content = fmt.Sprintf("%q", ms)
			default:
				content = "?" + fmt.Sprintf("%q", do("GET", k))
			}
			exp := strings.TrimSpace(string(do("PEXPIRETIME", k)))
			m[k] = ty + "|" + content + "|" + exp
		}
		if len(m) > 0 {
			out[db] = m
		}
	}
	return out
}

// goneBy: the observation ends with the key's deadline in Unix milliseconds (":<ms>", -1 without one); a key
// whose deadline has passed (or is about to) may or may not be there any more
func goneBy(v string, nowMs int64) bool {
	i := strings.LastIndex(v, "|:")
	if i < 0 {
		return false
	}
	ms, err := strconv.ParseInt(strings.TrimSpace(v[i+2:]), 10, 64)
	return err == nil && ms > 0 && ms <= nowMs+100
}

// diff: a is what is expected, b what was found. A key whose deadline has passed in the meantime does not count
// (false alarm of a sweep: a key with a deadline a few seconds ahead was saved, the crash copy was loaded after
// the deadline, and the loaded database — the new snapshot without that key — was taken for "neither").
func diff(a, b map[string]string) string {
	now := time.Now().UnixMilli()
	for k, v := range a {
		if w, ok := b[k]; !ok {
			if goneBy(v, now) {
				continue
			}
			return fmt.Sprintf("key %q (%s) is missing", k, v)
		} else if w != v {
			return fmt.Sprintf("key %q: %s vs %s", k, v, w)
		}
	}
	for k, v := range b {
		if _, ok := a[k]; !ok {
			if goneBy(v, now) {
				continue
			}
			return fmt.Sprintf("key %q (%s) is extra", k, v)
		}
	}
	return ""
}

func copyDir(src, dst string) {
	os.MkdirAll(dst, 0o755)
	entries, _ := os.ReadDir(src)
	for _, e := range entries {
		if e.IsDir() {
			continue
		}
		in, err := os.Open(filepath.Join(src, e.Name()))
		if err != nil {
			continue
		}
		out, _ := os.Create(filepath.Join(dst, e.Name()))
		io.Copy(out, in)
		in.Close()
		out.Close()
	}
}

func main() {
	seed := flag.Int64("seed", 1, "seed")
	cases := flag.Int("cases", 20, "histories")
	steps := flag.Int("steps", 150, "commands per phase")
	prop := flag.String("property", "C19", "property")
	out := flag.String("out", "", "stats json")
	replayDir := flag.String("replays", "/verif/replays", "replay dir")
	flag.Parse()
	start := time.Now()
	stats := map[string]int{}
	var samples []string
	failures := 0
	fail := func(cs int, trace []string, detail string) {
		failures++
		os.MkdirAll(*replayDir, 0o755)
		path := fmt.Sprintf("%s/%s-persist-%d-%d.json", *replayDir, *prop, *seed, cs)
		if len(trace) > 600 {
			trace = trace[len(trace)-600:]
		}
		data, _ := json.MarshalIndent(map[string]any{"property": *prop, "seed": *seed, "case": cs, "detail": detail, "history": trace}, "", " ")
		os.WriteFile(path, data, 0o644)
		fmt.Printf("PERSIST-FAIL property=%s replay=%s detail=%.400s\n", *prop, path, detail)
	}
	r := rand.New(rand.NewSource(*seed))
	for cs := 0; cs < *cases && failures == 0; cs++ {
		dir, _ := os.MkdirTemp("", "verif-persist-")
		base := filepath.Join(dir, "snap")
		vs := redisemu.VerifNewStore(base)
		cl := vs.NewClient()
		var trace []string
		curDb := 0
		prevSaved := map[int]map[string]string{} // per db: what its snapshot file holds
		do := func(a ...string) {
			trace = append(trace, fmt.Sprintf("%q", a))
			reply, _ := cl.Dispatch(toArgv(a))
			stats["commands"]++
			ok := len(reply) > 0 && reply[0] == '+'
			switch strings.ToLower(a[0]) {
			case "select":
				if ok && len(a) == 2 {
					if n, err := strconv.Atoi(a[1]); err == nil {
						curDb = n
					}
				}
			case "flushdb":
				// an acknowledged flush is durable at once (the snapshot file is removed)
				if ok {
					prevSaved[curDb] = nil
				}
			case "flushall":
				if ok {
					prevSaved = map[int]map[string]string{}
				}
			}
		}
		fams := []string{"mixed", "list", "hash", "set", "str", "expiry", "keys", "bits"}
		run := func(n int, phase int) {
			g := gen.New(*seed*7907+int64(cs*10+phase), fams[(cs+phase)%len(fams)])
			g.Conns = 1
			g.Malformed = 2
			for i := 0; i < n; i++ {
				_, argv, _ := g.Next()
				name := strings.ToLower(argv[0])
				switch name {
				case "blpop", "brpop", "blmove", "brpoplpush", "blmpop", "multi", "exec", "hello", "client", "watch", "discard":
					continue
				}
				// no deadline may pass during the test: keep relative TTLs long
				short := false
				for j, a := range argv {
					u := strings.ToUpper(a)
					if (u == "PX" || u == "PXAT" || name == "pexpire" || name == "pexpireat" || name == "psetex") && j+1 < len(argv) {
						short = true
					}
				}
				if short {
					continue
				}
				do(argv...)
				if r.Intn(25) == 0 {
					do("SELECT", strconv.Itoa([]int{0, 1, 2, 3, 15, 14, 7, r.Intn(16)}[r.Intn(8)]))
				}
				if phase > 0 && r.Intn(60) == 0 {
					do([]string{"FLUSHDB", "FLUSHALL"}[r.Intn(2)])
				}
			}
		}
		// Part B bookkeeping
		crashDirs := []string{}
		crashStage := []string{}
		redisemu.VerifSetPersistHook(func(stage, tmpName, fileName string) {
			if r.Intn(3) != 0 && stage == "key" {
				return // a third of the per-key points is enough
			}
			d := filepath.Join(dir, fmt.Sprintf("crash-%d", len(crashDirs)))
			copyDir(dir, d)
			crashDirs = append(crashDirs, d)
			crashStage = append(crashStage, stage+" of "+filepath.Base(fileName))
		})
		for phase := 0; phase < 3 && failures == 0; phase++ {
			run(*steps, phase)
			live := observe(vs)
			crashDirs, crashStage = nil, nil
			if err := vs.Save(); err != nil {
				fail(cs, trace, "save failed: "+err.Error())
				break
			}
			stats["saves"]++
			// every crash copy loads as old-or-new per database
			for i, d := range crashDirs {
				vsc := redisemu.VerifNewStore(filepath.Join(d, "snap"))
				got := observe(vsc)
				for db := 0; db < 16; db++ {
					g, o, n := got[db], prevSaved[db], live[db]
					if g == nil {
						g = map[string]string{}
					}
					if o == nil {
						o = map[string]string{}
					}
					if n == nil {
						n = map[string]string{}
					}
					if diff(g, o) != "" && diff(g, n) != "" {
						fail(cs, trace, fmt.Sprintf("crash copy taken at %q: database %d loads as neither the previous nor the new snapshot (vs previous: %s; vs new: %s)",
							crashStage[i], db, diff(o, g), diff(n, g)))
						break
					}
				}
				stats["crash_points"]++
				os.RemoveAll(d)
				if failures > 0 {
					break
				}
			}
			if failures > 0 {
				break
			}
			// restart
			vs2 := redisemu.VerifNewStore(base)
			restored := observe(vs2)
			for db := 0; db < 16; db++ {
				l, g := live[db], restored[db]
				if l == nil {
					l = map[string]string{}
				}
				if g == nil {
					g = map[string]string{}
				}
				if d := diff(l, g); d != "" {
					fail(cs, trace, fmt.Sprintf("after save %d and restart, database %d differs from what the running emulator showed: %s", phase+1, db, d))
					break
				}
			}
			stats["restarts"]++
			for db := 0; db < 16; db++ {
				prevSaved[db] = live[db]
			}
			if len(samples) < 3 {
				n := 0
				for _, m := range live {
					n += len(m)
				}
				samples = append(samples, fmt.Sprintf("case %d phase %d: %d commands so far, %d keys in %d databases compared after restart", cs, phase, len(trace), n, len(live)))
			}
		}
		redisemu.VerifSetPersistHook(nil)
		// single-command phases: one command, a save, a restart — a mutator that forgets to mark the
		// database dirty is not masked by its neighbours
		g1 := gen.New(*seed*6007+int64(cs), fams[cs%len(fams)])
		g1.Conns = 1
		g1.Malformed = 0
		for round := 0; round < 40 && failures == 0; round++ {
			_, argv, _ := g1.Next()
			name := strings.ToLower(argv[0])
			bad := false
			switch name {
			case "blpop", "brpop", "blmove", "brpoplpush", "blmpop", "multi", "exec", "hello", "client", "watch", "discard",
				"pexpire", "pexpireat", "psetex":
				bad = true
			}
			for _, a := range argv {
				u := strings.ToUpper(a)
				if u == "PX" || u == "PXAT" {
					bad = true
				}
			}
			if bad {
				continue
			}
			do(argv...)
			live := observe(vs)
			if err := vs.Save(); err != nil {
				fail(cs, trace, "save failed: "+err.Error())
				break
			}
			vs2 := redisemu.VerifNewStore(base)
			restored := observe(vs2)
			for db := 0; db < 16; db++ {
				l, g := live[db], restored[db]
				if l == nil {
					l = map[string]string{}
				}
				if g == nil {
					g = map[string]string{}
				}
				if d := diff(l, g); d != "" {
					fail(cs, trace, fmt.Sprintf("after the single command %q, a save and a restart, database %d differs: %s", argv, db, d))
					break
				}
			}
			stats["single_command_restarts"]++
		}
		// every database index: a saved key, then a flush with nothing written afterwards, a save and a
		// restart — the flushed content must not come back in any of the sixteen databases
		for _, flush := range []string{"FLUSHALL", "FLUSHDB"} {
			if failures > 0 {
				break
			}
			for db := 0; db < 16; db++ {
				do("SELECT", strconv.Itoa(db))
				do("SET", fmt.Sprintf("fk%d", db), "v")
				do("RPUSH", fmt.Sprintf("fl%d", db), "a", "b")
			}
			if err := vs.Save(); err != nil {
				fail(cs, trace, "save failed: "+err.Error())
				break
			}
			trace = append(trace, "save")
			if flush == "FLUSHALL" {
				do("SELECT", strconv.Itoa(r.Intn(16)))
				do("FLUSHALL")
			} else {
				for db := 0; db < 16; db++ {
					do("SELECT", strconv.Itoa(db))
					do("FLUSHDB")
				}
			}
			if r.Intn(2) == 0 {
				vs.Save()
				trace = append(trace, "save")
			}
			trace = append(trace, "restart")
			restored := observe(redisemu.VerifNewStore(base))
			for db := 0; db < 16; db++ {
				if len(restored[db]) != 0 {
					fail(cs, trace, fmt.Sprintf("after %s and a restart database %d holds %v again", flush, db, restored[db]))
					break
				}
			}
			stats["flush_restart_checks"]++
		}
		cl.Close()
		os.RemoveAll(dir)
		stats["cases"]++
	}
	res := map[string]any{"stats": stats, "samples": samples, "failures": failures, "wall_s": time.Since(start).Seconds()}
	if *out != "" {
		data, _ := json.MarshalIndent(res, "", " ")
		os.WriteFile(*out, data, 0o644)
	}
	fmt.Printf("persist %v failures=%d wall=%.1fs\n", stats, failures, time.Since(start).Seconds())
	if failures > 0 {
		os.Exit(1)
	}
}
