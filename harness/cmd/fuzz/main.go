// fuzz: C13.
// Part 1 — in-process grid: every command name of the handler table x arities 0…6 x boundary
//
//	argument values x prior key types, dispatched through the hook with `recover`: a panic, a
//	missing reply or a reply that is not one well-formed RESP value is a violation; a command that
//	does not return within 5 s is a stall.
//
// Part 2 — raw bytes on a real socket: malformed / truncated / absurd frames are written to an
//
//	emulator while a second connection measures that PING is still answered promptly. The case being
//	sent is written to the replay directory first, so that a process-killing panic leaves it behind.
package main

import (
	"bufio"
	"bytes"
	"context"
	"encoding/json"
	"flag"
	"fmt"
	"math/rand"
	"net"
	"os"
	"strconv"
	"strings"
	"time"

	"github.com/jimsnab/go-lane"
	redisemu "github.com/jimsnab/go-redisemu"

	"verif/harness/internal/gen"
	"verif/harness/internal/respio"
)

var commands = []string{"append", "bitcount", "bitfield", "bitfield_ro", "bitop", "bitpos", "blmove", "blmpop", "blpop", "brpop",
	"brpoplpush", "client", "command", "copy", "dbsize", "decr", "decrby", "del", "discard", "dump", "echo", "exec",
	"exists", "expire", "expireat", "expiretime", "flushall", "flushdb", "get", "getbit", "getdel", "getex",
	"getrange", "getset", "incr", "incrby", "incrbyfloat", "info", "hdel", "hexists", "hello", "hget", "hgetall",
	"hincrby", "hincrbyfloat", "hkeys", "hlen", "hmget", "hmset", "hrandfield", "hscan", "hset", "hsetnx", "hstrlen",
	"hvals", "lcs", "lindex", "linsert", "llen", "lmove", "lmpop", "lpush", "lpushx", "lpop", "lpos", "lrange", "lrem",
	"lset", "ltrim", "mget", "mset", "msetnx", "multi", "keys", "pexpire", "pexpireat", "pexpiretime", "persist",
	"psetex", "ping", "pttl", "quit", "randomkey", "rename", "renamenx", "restore", "rpush", "rpushx", "rpop",
	"rpoplpush", "sadd", "scard", "scan", "sdiff", "sdiffstore", "select", "set", "setbit", "setex", "setnx",
	"setrange", "sinter", "sintercard", "sinterstore", "sismember", "smembers", "smismember", "smove", "sort",
	"srandmember", "srem", "strlen", "substr", "sscan", "sunion", "sunionstore", "touch", "ttl", "type", "unlink",
	"unwatch", "watch", "nosuchcommand"}

var argPool = []string{"s", "l", "h", "z", "missing", "0", "1", "-1", "2", "10", "-9223372036854775808", "9223372036854775807",
	"9223372036854775806", "2147483648", "4294967296", "4294967295", "-2147483649", "1.5", "nan", "inf", "-inf", "1e400", "",
	"a", "f", "LEFT", "RIGHT", "BEFORE", "AFTER", "COUNT", "MATCH", "*", "NX", "XX", "GT", "LT", "EX", "PX", "GET", "KEEPTTL",
	"WITHVALUES", "LIMIT", "BY", "ALPHA", "DESC", "STORE", "AND", "NOT", "OVERFLOW", "SAT", "FAIL", "INCRBY", "SET", "u8", "i64", "u63",
	"#1", "#2147483647", "BIT", "BYTE", "RANK", "MAXLEN", "REPLACE", "DB", "ID", "TYPE", "string", "list", "ABSTTL", "0.01",
	"\r\n", "\x00\xff", "k\xc3\x28", "ERROR", "TIMEOUT", "SETNAME", "AUTH", "3", "LEN", "IDX", "MINMATCHLEN", "WITHMATCHLEN",
	"KILL", "LIST", "UNBLOCK", "INFO", "GETNAME", "NO-EVICT", "on", "SKIPME", "yes", "normal", "ADDR", "LADDR", "USER", "default",
	"DOCS", "GETKEYS", "GETKEYSANDFLAGS", "FILTERBY", "ACLCAT", "PATTERN", "MODULE", "HELP"}

// values at which integer handling changes: the ends of int64 / int32 / uint32 / uint64, the 512 MB
// string limit (only from the limit upwards: just below it the emulator rightly allocates that much),
// and spellings a lenient parser might accept
var boundaries = []string{"9223372036854775807", "9223372036854775806", "9223372036854775800", "-9223372036854775808", "-9223372036854775807",
	"9223372036854775808", "-9223372036854775809", "18446744073709551615", "18446744073709551616", "4294967296", "4294967295",
	"2147483648", "2147483647", "-2147483648", "-2147483649", "536870912", "536870913", "4611686018427387904", "-4611686018427387905",
	"1152921504606846976", "00", "-0", "+1", " 1", "1 ", "0x10", "1e3", "", "99999999999999999999999999", "-1", "0", "1"}

type grid struct {
	vs  *redisemu.VerifStore
	cl  *redisemu.VerifClient
	cl2 *redisemu.VerifClient
}

func newGrid() *grid {
	vs := redisemu.VerifNewStore("")
	g := &grid{vs: vs, cl: vs.NewClient(), cl2: vs.NewClient()}
	for _, c := range [][]string{{"SET", "s", "abc"}, {"RPUSH", "l", "a", "b", "c"}, {"HSET", "h", "f", "1", "g", "x"}, {"SADD", "z", "a", "b"}} {
		g.cl.Dispatch(toArgv(c))
	}
	return g
}

func toArgv(a []string) [][]byte {
	out := make([][]byte, len(a))
	for i, s := range a {
		out[i] = []byte(s)
	}
	return out
}

func isBlockingForever(argv []string) bool {
	n := strings.ToLower(argv[0])
	switch n {
	case "blpop", "brpop", "blmove", "brpoplpush", "blmpop":
		// a zero (or unparsable-as-nonzero) timeout waits forever when there is no data: keep those out
		for _, a := range argv[1:] {
			if a == "0" || a == "-0" || a == "0.0" || a == "1e400" || a == "inf" || a == "9223372036854775807" ||
				a == "9223372036854775806" || a == "4294967296" || a == "4294967295" || a == "2147483648" || a == "10" || a == "nan" {
				return true
			}
		}
	}
	return false
}

// stallLimit: how long a command may take before it counts as a stall. A blocking command with a timeout
// argument legitimately takes that long (false alarm of a loaded machine: `brpop NX #2147483647 3`, three
// seconds by its own timeout, was reported after five).
func stallLimit(argv []string) time.Duration {
	limit := 8 * time.Second
	for i, a := range argv {
		if i == 0 {
			continue
		}
		// an offset of hundreds of megabytes is legitimate (a 512 MB string) and slow on a loaded machine
		// (false alarm of a sweep: SETBIT k0 4294967295 1 took more than 8 s next to twenty other jobs)
		if n, err := strconv.ParseInt(a, 10, 64); err == nil && (n >= 100000000 || n <= -100000000) {
			limit = 45 * time.Second
		}
	}
	if len(argv) > 1 {
		switch strings.ToLower(argv[0]) {
		case "blpop", "brpop", "blmove", "brpoplpush", "blmpop":
			for _, a := range argv[1:] {
				if f, err := strconv.ParseFloat(a, 64); err == nil && f > 0 && f < 60 {
					limit += time.Duration(f * float64(time.Second))
				}
			}
		}
	}
	return limit
}

func main() {
	seed := flag.Int64("seed", 1, "seed")
	n := flag.Int("n", 30000, "grid dispatches")
	frames := flag.Int("frames", 300, "socket bursts")
	prop := flag.String("property", "C13", "property")
	out := flag.String("out", "", "stats json")
	replayDir := flag.String("replays", "/verif/replays", "replay dir")
	flag.Parse()
	start := time.Now()
	r := rand.New(rand.NewSource(*seed))
	stats := map[string]int{}
	var samples []string
	failures := 0
	os.MkdirAll(*replayDir, 0o755)
	fail := func(kind string, input any, detail string) {
		failures++
		path := fmt.Sprintf("%s/%s-fuzz-%s-%d-%d.json", *replayDir, *prop, kind, *seed, failures)
		data, _ := json.MarshalIndent(map[string]any{"property": *prop, "kind": kind, "seed": *seed, "input": input, "detail": detail}, "", " ")
		os.WriteFile(path, data, 0o644)
		fmt.Printf("FUZZ-FAIL property=%s replay=%s detail=%.300s\n", *prop, path, detail)
	}

	// ---- part 1
	shapes := gen.New(*seed*31337, "mixed")
	shapes.Conns = 1
	shapes.Malformed = 0
	g := newGrid()
	for i := 0; i < *n && failures == 0; i++ {
		if i%400 == 399 {
			g.cl.Close()
			g.cl2.Close()
			g = newGrid()
		}
		name := commands[r.Intn(len(commands))]
		if r.Intn(3) == 0 {
			name = strings.ToUpper(name)
		}
		arity := r.Intn(7)
		argv := []string{name}
		for a := 0; a < arity; a++ {
			argv = append(argv, argPool[r.Intn(len(argPool))])
		}
		if i%3 == 2 {
			// a well-shaped command of the generator with one of its numeric arguments at a boundary
			_, shaped, _ := shapes.Next()
			var numeric []int
			for j, a := range shaped[1:] {
				if _, err := strconv.ParseFloat(a, 64); err == nil {
					numeric = append(numeric, j+1)
				}
			}
			argv = append([]string{}, shaped...)
			if len(numeric) > 0 {
				argv[numeric[r.Intn(len(numeric))]] = boundaries[r.Intn(len(boundaries))]
				stats["boundary_substitutions"]++
			}
			name = argv[0]
			arity = len(argv) - 1
			switch strings.ToLower(name) {
			case "blpop", "brpop", "blmove", "brpoplpush", "blmpop", "exec", "discard", "watch", "verif-save":
				continue
			}
		}
		if isBlockingForever(argv) {
			continue
		}
		// MULTI; CLIENT LIST; EXEC self-deadlocks (known finding D26): keep CLIENT LIST out of transactions
		low := strings.ToLower(name)
		if low == "multi" {
			continue
		}
		type res struct {
			reply []byte
			p     string
		}
		ch := make(chan res, 1)
		t0 := time.Now()
		go func() {
			reply, p := g.cl.Dispatch(toArgv(argv))
			ch <- res{reply, p}
		}()
		select {
		case x := <-ch:
			stats["dispatches"]++
			if d := time.Since(t0); d > 200*time.Millisecond {
				stats["slow_over_200ms"]++
				if os.Getenv("FUZZ_SLOW") != "" {
					fmt.Printf("slow %v %q\n", d, argv)
				}
			}
			if x.p != "" {
				fail("panic", argv, fmt.Sprintf("%q panicked: %s", argv, x.p))
				break
			}
			rd := bufio.NewReader(bytes.NewReader(x.reply))
			v, err := respio.ReadValue(rd)
			if err != nil || len(v) != len(x.reply) {
				fail("reply", argv, fmt.Sprintf("%q: reply is not exactly one well-formed value: %q (%v)", argv, x.reply, err))
				break
			}
			stats["reply_"+string(x.reply[:1])]++
			if i%3 == 2 && x.reply[0] != '-' {
				// a boundary value that was accepted may have left a legitimately huge value behind
				// (SETBIT k 4294967295 1 is a 512 MB string): start the next cases from small data
				g.cl.Dispatch(toArgv([]string{"DISCARD"}))
				g.cl.Dispatch(toArgv([]string{"SELECT", "0"}))
				g.cl.Dispatch(toArgv([]string{"FLUSHALL"}))
				for _, c := range [][]string{{"SET", "s", "abc"}, {"RPUSH", "l", "a", "b", "c"}, {"HSET", "h", "f", "1", "g", "x"}, {"SADD", "z", "a", "b"}} {
					g.cl.Dispatch(toArgv(c))
				}
			}
			if len(samples) < 6 && x.reply[0] == '-' && arity > 2 {
				samples = append(samples, fmt.Sprintf("%q -> %.50q", argv, x.reply))
			}
			// the other connection must still be served
			if i%50 == 0 {
				done := make(chan bool, 1)
				go func() {
					rr, _ := g.cl2.Dispatch(toArgv([]string{"PING"}))
					done <- bytes.Equal(rr, []byte("+PONG\r\n"))
				}()
				select {
				case ok := <-done:
					if !ok {
						fail("liveness", argv, "second connection did not get PONG after this command")
					}
				case <-time.After(6 * time.Second):
					fail("stall", argv, fmt.Sprintf("after %q another connection is not served within 6 s", argv))
				}
			}
		case <-time.After(stallLimit(argv)):
			fail("stall", argv, fmt.Sprintf("%q did not return within %v", argv, stallLimit(argv)))
		}
	}

	// ---- part 2
	if failures == 0 && *frames > 0 {
		l, _ := net.Listen("tcp", "127.0.0.1:0")
		port := l.Addr().(*net.TCPAddr).Port
		l.Close()
		emu, _ := redisemu.NewEmulator(lane.NewNullLane(context.Background()), port, "127.0.0.1", "", nil)
		emu.Start()
		dial := func() net.Conn {
			for i := 0; i < 50; i++ {
				c, err := net.Dial("tcp", fmt.Sprintf("127.0.0.1:%d", port))
				if err == nil {
					return c
				}
				time.Sleep(10 * time.Millisecond)
			}
			panic("cannot connect")
		}
		watch := dial()
		wr := bufio.NewReader(watch)
		pieces := []string{"*1\r\n$4\r\nPING\r\n", "*2\r\n$3\r\nGET\r\n$1\r\nk\r\n", "\r\n", "\n", "*", "$", "*-1\r\n", "$-1\r\n", "*0\r\n",
			"*4611686018427387904\r\n", "$9223372036854775807\r\n", "*1\r\n$9223372036854775806\r\nx", "~1\r\n*0\r\n", "%1\r\n*0\r\n:1\r\n",
			"*1\r\n:5\r\n", "*2\r\n$3\r\nGET\r\n:1\r\n", "*1\r\n*1\r\n$4\r\nPING\r\n", "+PING\r\n", ":1\r\n", "_\r\n", "#t\r\n", ",1.5\r\n",
			"(123\r\n", "=8\r\ntxt:abcd\r\n", "!3\r\nERR\r\n", ">2\r\n+m\r\n:1\r\n", "|1\r\n+a\r\n+b\r\n", "$?\r\n;-1\r\n", "$?\r\n;3\r\nabc\r\n;0\r\n",
			"*?\r\n.\r\n", "*1\r\n$-5\r\n", "*1\r\n$3\r\nab\r\n", "*2\r\n$4\r\nECHO\r\n$3\r\na\r\nb\r\n", "PING\r\n", "*1\r\n$4\r\nQUIT\r\n",
			"*3\r\n$3\r\nSET\r\n$1\r\nk\r\n$1\r\nv\r\n", "*2\r\n$6\r\nFOO\r\n+X\r\n$1\r\na\r\n", "*99999999999999999999\r\n", "*1\r\n$abc\r\n"}
		for f := 0; f < *frames && failures == 0; f++ {
			var burst []byte
			for k := 0; k < 1+r.Intn(4); k++ {
				p := pieces[r.Intn(len(pieces))]
				if r.Intn(4) == 0 && len(p) > 1 {
					p = p[:1+r.Intn(len(p)-1)] // truncated
				}
				if r.Intn(6) == 0 {
					b := make([]byte, r.Intn(20))
					r.Read(b)
					p += string(b)
				}
				burst = append(burst, p...)
			}
			inflight := fmt.Sprintf("%s/%s-fuzz-%d-%d.json", *replayDir, *prop, *seed, f)
			data, _ := json.MarshalIndent(map[string]any{"property": *prop, "kind": "socket", "seed": *seed, "bytes": fmt.Sprintf("%q", burst),
				"what": "bytes written to a fresh connection; the file stays behind when the process dies while they are handled"}, "", " ")
			os.WriteFile(inflight, data, 0o644)
			c := dial()
			c.Write(burst)
			time.Sleep(2 * time.Millisecond)
			// liveness of another connection
			watch.SetDeadline(time.Now().Add(3 * time.Second))
			t0 := time.Now()
			watch.Write([]byte("*1\r\n$4\r\nPING\r\n"))
			line, err := wr.ReadString('\n')
			if err != nil || line != "+PONG\r\n" {
				fail("socket-liveness", fmt.Sprintf("%q", burst), fmt.Sprintf("after %q the watching connection got %q / %v", burst, line, err))
			}
			if d := time.Since(t0); d > time.Second {
				fail("socket-latency", fmt.Sprintf("%q", burst), fmt.Sprintf("PING took %v after %q", d, burst))
			}
			c.Close()
			os.Remove(inflight)
			stats["socket_bursts"]++
			stats["socket_bytes"] += len(burst)
		}
		watch.Close()
		emu.Close()
	}
	res := map[string]any{"stats": stats, "samples": samples, "failures": failures, "wall_s": time.Since(start).Seconds()}
	if *out != "" {
		data, _ := json.MarshalIndent(res, "", " ")
		os.WriteFile(*out, data, 0o644)
	}
	fmt.Printf("fuzz %v failures=%d wall=%.1fs\n", stats, failures, time.Since(start).Seconds())
	if failures > 0 {
		os.Exit(1)
	}
}
