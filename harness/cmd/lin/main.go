// lin: C08. Concurrent histories of k in-process connections on a few shared keys are recorded
// (invocation / response times, replies) and checked for linearizability with porcupine against a
// small sequential specification of the commands used (single-key read-modify-write and multi-key
// commands). A second part runs invariant workloads whose outcome is known for every linearizable
// execution: lost updates (INCR, APPEND, HINCRBY), element conservation (pushes / pops / LMOVE /
// SMOVE), multi-key atomicity (MSET pairs read by MGET, RENAME of a counter).
package main

import (
	"encoding/json"
	"flag"
	"fmt"
	"math/rand"
	"os"
	"sort"
	"strconv"
	"strings"
	"sync"
	"time"

	"github.com/anishathalye/porcupine"
	redisemu "github.com/jimsnab/go-redisemu"
)

func toArgv(a []string) [][]byte {
	out := make([][]byte, len(a))
	for i, s := range a {
		out[i] = []byte(s)
	}
	return out
}

// ---- sequential specification (only what the generator below uses)

type state struct {
	Str  map[string]string
	List map[string][]string
	Set  map[string]map[string]bool
}

func (s state) clone() state {
	n := state{map[string]string{}, map[string][]string{}, map[string]map[string]bool{}}
	for k, v := range s.Str {
		n.Str[k] = v
	}
	for k, v := range s.List {
		n.List[k] = append([]string{}, v...)
	}
	for k, v := range s.Set {
		m := map[string]bool{}
		for x := range v {
			m[x] = true
		}
		n.Set[k] = m
	}
	return n
}

func (s state) key() string {
	var parts []string
	for k, v := range s.Str {
		parts = append(parts, "s:"+k+"="+v)
	}
	for k, v := range s.List {
		parts = append(parts, "l:"+k+"="+strings.Join(v, ","))
	}
	for k, v := range s.Set {
		var ms []string
		for x := range v {
			ms = append(ms, x)
		}
		sort.Strings(ms)
		parts = append(parts, "z:"+k+"="+strings.Join(ms, ","))
	}
	sort.Strings(parts)
	return strings.Join(parts, ";")
}

func bulk(s string) string { return fmt.Sprintf("$%d\r\n%s\r\n", len(s), s) }
func integer(n int) string  { return fmt.Sprintf(":%d\r\n", n) }

const nilReply = "$-1\r\n"

func (s state) typeOf(k string) string {
	if _, ok := s.Str[k]; ok {
		return "str"
	}
	if _, ok := s.List[k]; ok {
		return "list"
	}
	if _, ok := s.Set[k]; ok {
		return "set"
	}
	return ""
}

func (s state) del(k string) {
	delete(s.Str, k)
	delete(s.List, k)
	delete(s.Set, k)
}

const wrongType = "-WRONGTYPE"

// apply returns the expected reply (prefix compare for errors) and the new state
func apply(s0 state, a []string) (string, state) {
	s := s0.clone()
	k := ""
	if len(a) > 1 {
		k = a[1]
	}
	switch a[0] {
	case "GET":
		if t := s.typeOf(k); t == "" {
			return nilReply, s
		} else if t != "str" {
			return wrongType, s
		}
		return bulk(s.Str[k]), s
	case "SET":
		s.del(k)
		s.Str[k] = a[2]
		return "+OK\r\n", s
	case "APPEND":
		if t := s.typeOf(k); t != "" && t != "str" {
			return wrongType, s
		}
		s.Str[k] += a[2]
		return integer(len(s.Str[k])), s
	case "INCR", "INCRBY":
		d := 1
		if a[0] == "INCRBY" {
			d, _ = strconv.Atoi(a[2])
		}
		if t := s.typeOf(k); t != "" && t != "str" {
			return wrongType, s
		}
		cur := 0
		if v, ok := s.Str[k]; ok {
			n, err := strconv.Atoi(v)
			if err != nil {
				return "-ERR", s
			}
			cur = n
		}
		s.Str[k] = strconv.Itoa(cur + d)
		return integer(cur + d), s
	case "MSET":
		for i := 1; i+1 < len(a); i += 2 {
			s.del(a[i])
			s.Str[a[i]] = a[i+1]
		}
		return "+OK\r\n", s
	case "MGET":
		out := fmt.Sprintf("*%d\r\n", len(a)-1)
		for _, kk := range a[1:] {
			if v, ok := s.Str[kk]; ok {
				out += bulk(v)
			} else {
				out += nilReply
			}
		}
		return out, s
	case "DEL":
		n := 0
		for _, kk := range a[1:] {
			if s.typeOf(kk) != "" {
				n++
				s.del(kk)
			}
		}
		return integer(n), s
	case "RENAME":
		t := s.typeOf(k)
		if t == "" {
			return "-ERR", s
		}
		dst := a[2]
		if dst == k {
			return "+OK\r\n", s
		}
		str, lst, set := s.Str[k], s.List[k], s.Set[k]
		s.del(k)
		s.del(dst)
		switch t {
		case "str":
			s.Str[dst] = str
		case "list":
			s.List[dst] = lst
		case "set":
			s.Set[dst] = set
		}
		return "+OK\r\n", s
	case "RPUSH", "LPUSH":
		if t := s.typeOf(k); t != "" && t != "list" {
			return wrongType, s
		}
		for _, v := range a[2:] {
			if a[0] == "RPUSH" {
				s.List[k] = append(s.List[k], v)
			} else {
				s.List[k] = append([]string{v}, s.List[k]...)
			}
		}
		return integer(len(s.List[k])), s
	case "LPOP", "RPOP":
		if t := s.typeOf(k); t == "" {
			return nilReply, s
		} else if t != "list" {
			return wrongType, s
		}
		l := s.List[k]
		var v string
		if a[0] == "LPOP" {
			v, l = l[0], l[1:]
		} else {
			v, l = l[len(l)-1], l[:len(l)-1]
		}
		if len(l) == 0 {
			delete(s.List, k)
		} else {
			s.List[k] = l
		}
		return bulk(v), s
	case "LLEN":
		if t := s.typeOf(k); t != "" && t != "list" {
			return wrongType, s
		}
		return integer(len(s.List[k])), s
	case "LMOVE": // LMOVE src dst LEFT RIGHT
		dst := a[2]
		if t := s.typeOf(k); t == "" {
			return nilReply, s
		} else if t != "list" {
			return wrongType, s
		}
		if t := s.typeOf(dst); t != "" && t != "list" {
			return wrongType, s
		}
		l := s.List[k]
		v := l[0]
		if dst == k {
			s.List[k] = append(l[1:], v)
			return bulk(v), s
		}
		l = l[1:]
		if len(l) == 0 {
			delete(s.List, k)
		} else {
			s.List[k] = l
		}
		s.List[dst] = append(s.List[dst], v)
		return bulk(v), s
	case "SADD":
		if t := s.typeOf(k); t != "" && t != "set" {
			return wrongType, s
		}
		if s.Set[k] == nil {
			s.Set[k] = map[string]bool{}
		}
		n := 0
		for _, m := range a[2:] {
			if !s.Set[k][m] {
				n++
				s.Set[k][m] = true
			}
		}
		return integer(n), s
	case "SREM":
		if t := s.typeOf(k); t == "" {
			return integer(0), s
		} else if t != "set" {
			return wrongType, s
		}
		n := 0
		for _, m := range a[2:] {
			if s.Set[k][m] {
				n++
				delete(s.Set[k], m)
			}
		}
		if len(s.Set[k]) == 0 {
			delete(s.Set, k)
		}
		return integer(n), s
	case "SCARD":
		if t := s.typeOf(k); t != "" && t != "set" {
			return wrongType, s
		}
		return integer(len(s.Set[k])), s
	case "SMOVE":
		dst, m := a[2], a[3]
		if t := s.typeOf(k); t == "" {
			return integer(0), s
		} else if t != "set" {
			return wrongType, s
		}
		if !s.Set[k][m] {
			return integer(0), s
		}
		if dst == k {
			return integer(1), s
		}
		if t := s.typeOf(dst); t != "" && t != "set" {
			return wrongType, s
		}
		delete(s.Set[k], m)
		if len(s.Set[k]) == 0 {
			delete(s.Set, k)
		}
		if s.Set[dst] == nil {
			s.Set[dst] = map[string]bool{}
		}
		s.Set[dst][m] = true
		return integer(1), s
	case "SUNIONSTORE": // SUNIONSTORE dst a b
		u := map[string]bool{}
		for _, kk := range a[2:] {
			if t := s.typeOf(kk); t != "" && t != "set" {
				return wrongType, s
			}
			for x := range s.Set[kk] {
				u[x] = true
			}
		}
		s.del(k)
		if len(u) > 0 {
			s.Set[k] = u
		}
		return integer(len(u)), s
	case "EXISTS":
		n := 0
		for _, kk := range a[1:] {
			if s.typeOf(kk) != "" {
				n++
			}
		}
		return integer(n), s
	}
	return "?", s
}

type input struct{ argv []string }

var model = porcupine.Model{
	Init: func() interface{} { return state{map[string]string{}, map[string][]string{}, map[string]map[string]bool{}} },
	Step: func(st, in, out interface{}) (bool, interface{}) {
		exp, ns := apply(st.(state), in.(input).argv)
		got := out.(string)
		if strings.HasPrefix(exp, "-") {
			return strings.HasPrefix(got, exp), ns
		}
		return exp == got, ns
	},
	Equal: func(a, b interface{}) bool { return a.(state).key() == b.(state).key() },
	DescribeOperation: func(in, out interface{}) string {
		return fmt.Sprintf("%v -> %q", in.(input).argv, out.(string))
	},
}

func genOp(r *rand.Rand) []string {
	strs := []string{"a", "b"}
	lists := []string{"l", "m"}
	sets := []string{"s", "t"}
	anyKey := []string{"a", "b", "l", "m", "s", "t"}
	p := func(xs []string) string { return xs[r.Intn(len(xs))] }
	v := func() string { return strconv.Itoa(r.Intn(5)) }
	switch r.Intn(22) {
	case 0:
		return []string{"GET", p(strs)}
	case 1:
		return []string{"SET", p(strs), v()}
	case 2:
		return []string{"APPEND", p(strs), v()}
	case 3, 4:
		return []string{"INCR", p(strs)}
	case 5:
		return []string{"INCRBY", p(strs), v()}
	case 6:
		x := v()
		return []string{"MSET", "a", x, "b", x}
	case 7:
		return []string{"MGET", "a", "b"}
	case 8:
		return []string{"DEL", p(anyKey)}
	case 9:
		return []string{"RENAME", p(anyKey), p(anyKey)}
	case 10, 11:
		return []string{p([]string{"RPUSH", "LPUSH"}), p(lists), v()}
	case 12, 13:
		return []string{p([]string{"LPOP", "RPOP"}), p(lists)}
	case 14:
		return []string{"LLEN", p(lists)}
	case 15:
		return []string{"LMOVE", p(lists), p(lists), "LEFT", "RIGHT"}
	case 16, 17:
		return []string{"SADD", p(sets), v()}
	case 18:
		return []string{"SREM", p(sets), v()}
	case 19:
		return []string{"SMOVE", p(sets), p(sets), v()}
	case 20:
		return []string{"SUNIONSTORE", p(sets), "s", "t"}
	default:
		return []string{"EXISTS", p(anyKey), p(anyKey)}
	}
}

func main() {
	seed := flag.Int64("seed", 1, "seed")
	histories := flag.Int("histories", 60, "concurrent histories checked with porcupine")
	clients := flag.Int("clients", 4, "connections per history")
	opsPer := flag.Int("ops", 14, "operations per connection")
	stress := flag.Int("stress", 4, "invariant workloads rounds")
	prop := flag.String("property", "C08", "property")
	out := flag.String("out", "", "stats json")
	replayDir := flag.String("replays", "/verif/replays", "replay dir")
	flag.Parse()
	start := time.Now()
	stats := map[string]int{}
	var samples []string
	failures := 0
	fail := func(kind string, n int, payload any, detail string) {
		failures++
		os.MkdirAll(*replayDir, 0o755)
		path := fmt.Sprintf("%s/%s-lin-%s-%d-%d.json", *replayDir, *prop, kind, *seed, n)
		data, _ := json.MarshalIndent(map[string]any{"property": *prop, "kind": kind, "seed": *seed, "detail": detail, "history": payload}, "", " ")
		os.WriteFile(path, data, 0o644)
		fmt.Printf("LIN-FAIL property=%s replay=%s detail=%.300s\n", *prop, path, detail)
	}

	// ---- part A: porcupine
	for h := 0; h < *histories && failures == 0; h++ {
		vs := redisemu.VerifNewStore("")
		var mu sync.Mutex
		var ops []porcupine.Operation
		var wg sync.WaitGroup
		startGate := make(chan struct{})
		for c := 0; c < *clients; c++ {
			wg.Add(1)
			go func(c int) {
				defer wg.Done()
				r := rand.New(rand.NewSource(*seed*100003 + int64(h*31+c)))
				cl := vs.NewClient()
				defer cl.Close()
				<-startGate
				for i := 0; i < *opsPer; i++ {
					argv := genOp(r)
					call := time.Now().UnixNano()
					reply, p := cl.Dispatch(toArgv(argv))
					ret := time.Now().UnixNano()
					o := string(reply)
					if p != "" {
						o = "PANIC " + p
					}
					mu.Lock()
					ops = append(ops, porcupine.Operation{ClientId: c, Input: input{argv}, Call: call, Output: o, Return: ret})
					mu.Unlock()
				}
			}(c)
		}
		close(startGate)
		wg.Wait()
		res := porcupine.CheckOperationsTimeout(model, ops, 30*time.Second)
		stats["histories"]++
		stats["operations"] += len(ops)
		switch res {
		case porcupine.Illegal:
			var hist []string
			sort.Slice(ops, func(i, j int) bool { return ops[i].Call < ops[j].Call })
			for _, o := range ops {
				hist = append(hist, fmt.Sprintf("client %d [%d,%d] %v -> %q", o.ClientId, o.Call, o.Return, o.Input.(input).argv, o.Output))
			}
			fail("history", h, hist, "no sequential order of these commands (respecting each connection's order and real-time precedence) explains the replies")
		case porcupine.Unknown:
			stats["undecided_within_30s"]++
		default:
			stats["linearizable"]++
		}
		if len(samples) < 2 && len(ops) > 3 {
			samples = append(samples, fmt.Sprintf("%d clients x %d ops, e.g. %v %v %v", *clients, *opsPer, ops[0].Input.(input).argv, ops[1].Input.(input).argv, ops[2].Input.(input).argv))
		}
	}

	// ---- part B: invariants
	for round := 0; round < *stress && failures == 0; round++ {
		vs := redisemu.VerifNewStore("")
		n, m := 8, 300
		var wg sync.WaitGroup
		do := func(cl *redisemu.VerifClient, a ...string) string { r, _ := cl.Dispatch(toArgv(a)); return string(r) }
		seenIncr := make([]map[string]bool, n)
		torn := 0
		var tornMu sync.Mutex
		for w := 0; w < n; w++ {
			wg.Add(1)
			seenIncr[w] = map[string]bool{}
			go func(w int) {
				defer wg.Done()
				cl := vs.NewClient()
				defer cl.Close()
				for i := 0; i < m; i++ {
					seenIncr[w][do(cl, "INCR", "ctr")] = true
					do(cl, "APPEND", "app", "x")
					do(cl, "HINCRBY", "h", "f", "1")
					do(cl, "RPUSH", "q", fmt.Sprintf("%d-%d", w, i))
					do(cl, "LMOVE", "q", "q2", "LEFT", "RIGHT")
					do(cl, "SADD", "sa", fmt.Sprintf("%d-%d", w, i))
					do(cl, "SMOVE", "sa", "sb", fmt.Sprintf("%d-%d", w, i))
					v := strconv.Itoa(w*1000 + i)
					do(cl, "MSET", "p1", v, "p2", v)
					if r := do(cl, "MGET", "p1", "p2"); true {
						parts := strings.Split(r, "\r\n")
						if len(parts) >= 5 && parts[2] != parts[4] {
							tornMu.Lock()
							torn++
							tornMu.Unlock()
						}
					}
					if i%10 == 0 {
						do(cl, "RENAME", "ctr", "ctr") // same name: must not disturb the counter
					}
				}
			}(w)
		}
		wg.Wait()
		cl := vs.NewClient()
		total := n * m
		distinct := map[string]bool{}
		for _, s := range seenIncr {
			for k := range s {
				distinct[k] = true
			}
		}
		checks := []struct {
			what, got, want string
		}{
			{"INCR final value", do(cl, "GET", "ctr"), bulk(strconv.Itoa(total))},
			{"APPEND final length", do(cl, "STRLEN", "app"), integer(total)},
			{"HINCRBY final value", do(cl, "HGET", "h", "f"), bulk(strconv.Itoa(total))},
			{"elements moved by LMOVE", do(cl, "LLEN", "q2"), integer(total)},
			{"elements left behind by LMOVE", do(cl, "LLEN", "q"), integer(0)},
			{"members moved by SMOVE", do(cl, "SCARD", "sb"), integer(total)},
			{"members left behind by SMOVE", do(cl, "SCARD", "sa"), integer(0)},
		}
		for _, c := range checks {
			stats["invariant_checks"]++
			if c.got != c.want {
				fail("invariant", round, []string{fmt.Sprintf("%d connections x %d rounds of INCR/APPEND/HINCRBY/RPUSH+LMOVE/SADD+SMOVE/MSET+MGET", n, m)},
					fmt.Sprintf("%s: got %q, every sequential execution gives %q (lost update)", c.what, c.got, c.want))
				break
			}
		}
		if failures == 0 && len(distinct) != total {
			fail("invariant", round, nil, fmt.Sprintf("INCR replies: %d distinct values for %d increments (two connections saw the same value)", len(distinct), total))
		}
		if failures == 0 && torn > 0 {
			fail("invariant", round, nil, fmt.Sprintf("MGET p1 p2 saw %d half-applied MSET p1 v p2 v", torn))
		}
		cl.Close()
		stats["stress_rounds"]++
		stats["stress_operations"] += total * 9
	}
	res := map[string]any{"stats": stats, "samples": samples, "failures": failures, "wall_s": time.Since(start).Seconds()}
	if *out != "" {
		data, _ := json.MarshalIndent(res, "", " ")
		os.WriteFile(*out, data, 0o644)
	}
	fmt.Printf("lin %v failures=%d wall=%.1fs\n", stats, failures, time.Since(start).Seconds())
	if failures > 0 {
		os.Exit(1)
	}
}
