// lin: C08. Concurrent histories of k in-process connections on a few shared keys are recorded
// (invocation / response times, replies) and checked for linearizability with porcupine against a
// small sequential specification of the commands used (single-key read-modify-write and multi-key
// commands). A second part runs invariant workloads whose outcome is known for every linearizable
// execution: lost updates (INCR, APPEND, HINCRBY), element conservation (pushes / pops / LMOVE /
// SMOVE), multi-key atomicity (MSET pairs read by MGET, RENAME of a counter).
package main

import (
	"encoding/json"
	"flag"
	"fmt"
	"math/rand"
	"os"
	"sort"
	"strconv"
	"strings"
	"sync"
	"sync/atomic"
	"time"

	"github.com/anishathalye/porcupine"
	redisemu "github.com/jimsnab/go-redisemu"
)

func toArgv(a []string) [][]byte {
	out := make([][]byte, len(a))
	for i, s := range a {
		out[i] = []byte(s)
	}
	return out
}

// ---- sequential specification (only what the generator below uses)

type state struct {
	Str  map[string]string
	List map[string][]string
	Set  map[string]map[string]bool
}

func (s state) clone() state {
	n := state{map[string]string{}, map[string][]string{}, map[string]map[string]bool{}}
	for k, v := range s.Str {
		n.Str[k] = v
	}
	for k, v := range s.List {
		n.List[k] = append([]string{}, v...)
	}
	for k, v := range s.Set {
		m := map[string]bool{}
		for x := range v {
			m[x] = true
		}
		n.Set[k] = m
	}
	return n
}

func (s state) key() string {
	var parts []string
	for k, v := range s.Str {
		parts = append(parts, "s:"+k+"="+v)
	}
	for k, v := range s.List {
		parts = append(parts, "l:"+k+"="+strings.Join(v, ","))
	}
	for k, v := range s.Set {
		var ms []string
		for x := range v {
			ms = append(ms, x)
		}
		sort.Strings(ms)
		parts = append(parts, "z:"+k+"="+strings.Join(ms, ","))
	}
	sort.Strings(parts)
	return strings.Join(parts, ";")
}

func bulk(s string) string { return fmt.Sprintf("$%d\r\n%s\r\n", len(s), s) }
func integer(n int) string { return fmt.Sprintf(":%d\r\n", n) }

const nilReply = "$-1\r\n"

func (s state) typeOf(k string) string {
	if _, ok := s.Str[k]; ok {
		return "str"
	}
	if _, ok := s.List[k]; ok {
		return "list"
	}
	if _, ok := s.Set[k]; ok {
		return "set"
	}
	return ""
}

func (s state) del(k string) {
	delete(s.Str, k)
	delete(s.List, k)
	delete(s.Set, k)
}

const wrongType = "-WRONGTYPE"

// apply returns the expected reply (prefix compare for errors) and the new state
func apply(s0 state, a []string) (string, state) {
	s := s0.clone()
	k := ""
	if len(a) > 1 {
		k = a[1]
	}
	switch a[0] {
	case "GET":
		if t := s.typeOf(k); t == "" {
			return nilReply, s
		} else if t != "str" {
			return wrongType, s
		}
		return bulk(s.Str[k]), s
	case "SET":
		s.del(k)
		s.Str[k] = a[2]
		return "+OK\r\n", s
	case "APPEND":
		if t := s.typeOf(k); t != "" && t != "str" {
			return wrongType, s
		}
		s.Str[k] += a[2]
		return integer(len(s.Str[k])), s
	case "INCR", "INCRBY":
		d := 1
		if a[0] == "INCRBY" {
			d, _ = strconv.Atoi(a[2])
		}
		if t := s.typeOf(k); t != "" && t != "str" {
			return wrongType, s
		}
		cur := 0
		if v, ok := s.Str[k]; ok {
			n, err := strconv.Atoi(v)
			if err != nil {
				return "-ERR", s
			}
			cur = n
		}
		s.Str[k] = strconv.Itoa(cur + d)
		return integer(cur + d), s
	case "MSET":
		for i := 1; i+1 < len(a); i += 2 {
			s.del(a[i])
			s.Str[a[i]] = a[i+1]
		}
		return "+OK\r\n", s
	case "MSETNX":
		for i := 1; i+1 < len(a); i += 2 {
			if s.typeOf(a[i]) != "" {
				return integer(0), s
			}
		}
		for i := 1; i+1 < len(a); i += 2 {
			s.Str[a[i]] = a[i+1]
		}
		return integer(1), s
	case "SETNX":
		if s.typeOf(k) != "" {
			return integer(0), s
		}
		s.Str[k] = a[2]
		return integer(1), s
	case "GETSET":
		if t := s.typeOf(k); t != "" && t != "str" {
			return wrongType, s
		}
		old, ok := s.Str[k]
		s.Str[k] = a[2]
		if !ok {
			return nilReply, s
		}
		return bulk(old), s
	case "COPY": // COPY src dst REPLACE
		dst := a[2]
		if dst == k {
			return "-ERR", s
		}
		t := s.typeOf(k)
		if t == "" {
			return integer(0), s
		}
		str, lst, set := s.Str[k], append([]string{}, s.List[k]...), s.Set[k]
		s.del(dst)
		switch t {
		case "str":
			s.Str[dst] = str
		case "list":
			s.List[dst] = lst
		case "set":
			m := map[string]bool{}
			for x := range set {
				m[x] = true
			}
			s.Set[dst] = m
		}
		return integer(1), s
	case "MGET":
		out := fmt.Sprintf("*%d\r\n", len(a)-1)
		for _, kk := range a[1:] {
			if v, ok := s.Str[kk]; ok {
				out += bulk(v)
			} else {
				out += nilReply
			}
		}
		return out, s
	case "DEL", "UNLINK":
		n := 0
		for _, kk := range a[1:] {
			if s.typeOf(kk) != "" {
				n++
				s.del(kk)
			}
		}
		return integer(n), s
	case "RENAME":
		t := s.typeOf(k)
		if t == "" {
			return "-ERR", s
		}
		dst := a[2]
		if dst == k {
			return "+OK\r\n", s
		}
		str, lst, set := s.Str[k], s.List[k], s.Set[k]
		s.del(k)
		s.del(dst)
		switch t {
		case "str":
			s.Str[dst] = str
		case "list":
			s.List[dst] = lst
		case "set":
			s.Set[dst] = set
		}
		return "+OK\r\n", s
	case "RPUSH", "LPUSH":
		if t := s.typeOf(k); t != "" && t != "list" {
			return wrongType, s
		}
		for _, v := range a[2:] {
			if a[0] == "RPUSH" {
				s.List[k] = append(s.List[k], v)
			} else {
				s.List[k] = append([]string{v}, s.List[k]...)
			}
		}
		return integer(len(s.List[k])), s
	case "LPOP", "RPOP":
		if t := s.typeOf(k); t == "" {
			return nilReply, s
		} else if t != "list" {
			return wrongType, s
		}
		l := s.List[k]
		var v string
		if a[0] == "LPOP" {
			v, l = l[0], l[1:]
		} else {
			v, l = l[len(l)-1], l[:len(l)-1]
		}
		if len(l) == 0 {
			delete(s.List, k)
		} else {
			s.List[k] = l
		}
		return bulk(v), s
	case "LLEN":
		if t := s.typeOf(k); t != "" && t != "list" {
			return wrongType, s
		}
		return integer(len(s.List[k])), s
	case "LMOVE": // LMOVE src dst LEFT RIGHT
		dst := a[2]
		if t := s.typeOf(k); t == "" {
			return nilReply, s
		} else if t != "list" {
			return wrongType, s
		}
		if t := s.typeOf(dst); t != "" && t != "list" {
			return wrongType, s
		}
		l := s.List[k]
		v := l[0]
		if dst == k {
			s.List[k] = append(l[1:], v)
			return bulk(v), s
		}
		l = l[1:]
		if len(l) == 0 {
			delete(s.List, k)
		} else {
			s.List[k] = l
		}
		s.List[dst] = append(s.List[dst], v)
		return bulk(v), s
	case "SADD":
		if t := s.typeOf(k); t != "" && t != "set" {
			return wrongType, s
		}
		if s.Set[k] == nil {
			s.Set[k] = map[string]bool{}
		}
		n := 0
		for _, m := range a[2:] {
			if !s.Set[k][m] {
				n++
				s.Set[k][m] = true
			}
		}
		return integer(n), s
	case "SREM":
		if t := s.typeOf(k); t == "" {
			return integer(0), s
		} else if t != "set" {
			return wrongType, s
		}
		n := 0
		for _, m := range a[2:] {
			if s.Set[k][m] {
				n++
				delete(s.Set[k], m)
			}
		}
		if len(s.Set[k]) == 0 {
			delete(s.Set, k)
		}
		return integer(n), s
	case "SCARD":
		if t := s.typeOf(k); t != "" && t != "set" {
			return wrongType, s
		}
		return integer(len(s.Set[k])), s
	case "SMOVE":
		dst, m := a[2], a[3]
		if t := s.typeOf(k); t == "" {
			return integer(0), s
		} else if t != "set" {
			return wrongType, s
		}
		if !s.Set[k][m] {
			return integer(0), s
		}
		if dst == k {
			return integer(1), s
		}
		if t := s.typeOf(dst); t != "" && t != "set" {
			return wrongType, s
		}
		delete(s.Set[k], m)
		if len(s.Set[k]) == 0 {
			delete(s.Set, k)
		}
		if s.Set[dst] == nil {
			s.Set[dst] = map[string]bool{}
		}
		s.Set[dst][m] = true
		return integer(1), s
	case "SUNIONSTORE": // SUNIONSTORE dst a b
		u := map[string]bool{}
		for _, kk := range a[2:] {
			if t := s.typeOf(kk); t != "" && t != "set" {
				return wrongType, s
			}
			for x := range s.Set[kk] {
				u[x] = true
			}
		}
		s.del(k)
		if len(u) > 0 {
			s.Set[k] = u
		}
		return integer(len(u)), s
	case "EXISTS":
		n := 0
		for _, kk := range a[1:] {
			if s.typeOf(kk) != "" {
				n++
			}
		}
		return integer(n), s
	}
	return "?", s
}

type input struct{ argv []string }

var model = porcupine.Model{
	Init: func() interface{} {
		return state{map[string]string{}, map[string][]string{}, map[string]map[string]bool{}}
	},
	Step: func(st, in, out interface{}) (bool, interface{}) {
		exp, ns := apply(st.(state), in.(input).argv)
		got := out.(string)
		if strings.HasPrefix(exp, "-") {
			return strings.HasPrefix(got, exp), ns
		}
		return exp == got, ns
	},
	Equal: func(a, b interface{}) bool { return a.(state).key() == b.(state).key() },
	DescribeOperation: func(in, out interface{}) string {
		return fmt.Sprintf("%v -> %q", in.(input).argv, out.(string))
	},
}

func genOp(r *rand.Rand) []string {
	strs := []string{"a", "b"}
	lists := []string{"l", "m"}
	sets := []string{"s", "t"}
	anyKey := []string{"a", "b", "l", "m", "s", "t"}
	p := func(xs []string) string { return xs[r.Intn(len(xs))] }
	v := func() string { return strconv.Itoa(r.Intn(5)) }
	switch r.Intn(28) {
	case 22:
		x := v()
		return []string{"MSETNX", "a", x, "b", x}
	case 23:
		return []string{p([]string{"DEL", "UNLINK"}), "a", "b"}
	case 24:
		return []string{"SETNX", p(strs), v()}
	case 25:
		return []string{"GETSET", p(strs), v()}
	case 26:
		return []string{"COPY", p(anyKey), p(anyKey), "REPLACE"}
	case 27:
		return []string{"EXISTS", "a", "b"}
	case 0:
		return []string{"GET", p(strs)}
	case 1:
		return []string{"SET", p(strs), v()}
	case 2:
		return []string{"APPEND", p(strs), v()}
	case 3, 4:
		return []string{"INCR", p(strs)}
	case 5:
		return []string{"INCRBY", p(strs), v()}
	case 6:
		x := v()
		return []string{"MSET", "a", x, "b", x}
	case 7:
		return []string{"MGET", "a", "b"}
	case 8:
		return []string{"DEL", p(anyKey)}
	case 9:
		return []string{"RENAME", p(anyKey), p(anyKey)}
	case 10, 11:
		return []string{p([]string{"RPUSH", "LPUSH"}), p(lists), v()}
	case 12, 13:
		return []string{p([]string{"LPOP", "RPOP"}), p(lists)}
	case 14:
		return []string{"LLEN", p(lists)}
	case 15:
		return []string{"LMOVE", p(lists), p(lists), "LEFT", "RIGHT"}
	case 16, 17:
		return []string{"SADD", p(sets), v()}
	case 18:
		return []string{"SREM", p(sets), v()}
	case 19:
		return []string{"SMOVE", p(sets), p(sets), v()}
	case 20:
		return []string{"SUNIONSTORE", p(sets), "s", "t"}
	default:
		return []string{"EXISTS", p(anyKey), p(anyKey)}
	}
}

func main() {
	seed := flag.Int64("seed", 1, "seed")
	histories := flag.Int("histories", 60, "concurrent histories checked with porcupine")
	clients := flag.Int("clients", 4, "connections per history")
	opsPer := flag.Int("ops", 14, "operations per connection")
	stress := flag.Int("stress", 4, "invariant workloads rounds")
	prop := flag.String("property", "C08", "property")
	only := flag.String("only", "", "run only these parts (letters A-G); empty = all")
	out := flag.String("out", "", "stats json")
	replayDir := flag.String("replays", "/verif/replays", "replay dir")
	flag.Parse()
	start := time.Now()
	stats := map[string]int{}
	var samples []string
	failures := 0
	fail := func(kind string, n int, payload any, detail string) {
		failures++
		os.MkdirAll(*replayDir, 0o755)
		path := fmt.Sprintf("%s/%s-lin-%s-%d-%d.json", *replayDir, *prop, kind, *seed, n)
		data, _ := json.MarshalIndent(map[string]any{"property": *prop, "kind": kind, "seed": *seed, "detail": detail, "history": payload}, "", " ")
		os.WriteFile(path, data, 0o644)
		fmt.Printf("LIN-FAIL property=%s replay=%s detail=%.300s\n", *prop, path, detail)
	}

	on := func(part string) bool { return *only == "" || strings.Contains(*only, part) }
	// a connection that has run a transaction (or CLIENT INFO / LIST) has owned its data store exclusively
	// once; whatever that left behind must not change how its later commands are ordered with the others'
	prelude := func(cl *redisemu.VerifClient, w int) {
		switch w % 3 {
		case 0:
			for _, a := range [][]string{{"MULTI"}, {"PING"}, {"EXEC"}} {
				cl.Dispatch(toArgv(a))
			}
		case 1:
			cl.Dispatch(toArgv([]string{"CLIENT", "INFO"}))
		}
	}
	// ---- part A: porcupine
	for h := 0; h < *histories && failures == 0 && on("A"); h++ {
		vs := redisemu.VerifNewStore("")
		var mu sync.Mutex
		var ops []porcupine.Operation
		var wg sync.WaitGroup
		startGate := make(chan struct{})
		for c := 0; c < *clients; c++ {
			wg.Add(1)
			go func(c int) {
				defer wg.Done()
				r := rand.New(rand.NewSource(*seed*100003 + int64(h*31+c)))
				cl := vs.NewClient()
				defer cl.Close()
				prelude(cl, c+h)
				<-startGate
				for i := 0; i < *opsPer; i++ {
					argv := genOp(r)
					call := time.Now().UnixNano()
					reply, p := cl.Dispatch(toArgv(argv))
					ret := time.Now().UnixNano()
					o := string(reply)
					if p != "" {
						o = "PANIC " + p
					}
					mu.Lock()
					ops = append(ops, porcupine.Operation{ClientId: c, Input: input{argv}, Call: call, Output: o, Return: ret})
					mu.Unlock()
				}
			}(c)
		}
		close(startGate)
		wg.Wait()
		res := porcupine.CheckOperationsTimeout(model, ops, 30*time.Second)
		stats["histories"]++
		stats["operations"] += len(ops)
		switch res {
		case porcupine.Illegal:
			var hist []string
			sort.Slice(ops, func(i, j int) bool { return ops[i].Call < ops[j].Call })
			for _, o := range ops {
				hist = append(hist, fmt.Sprintf("client %d [%d,%d] %v -> %q", o.ClientId, o.Call, o.Return, o.Input.(input).argv, o.Output))
			}
			fail("history", h, hist, "no sequential order of these commands (respecting each connection's order and real-time precedence) explains the replies")
		case porcupine.Unknown:
			stats["undecided_within_30s"]++
		default:
			stats["linearizable"]++
		}
		if len(samples) < 2 && len(ops) > 3 {
			samples = append(samples, fmt.Sprintf("%d clients x %d ops, e.g. %v %v %v", *clients, *opsPer, ops[0].Input.(input).argv, ops[1].Input.(input).argv, ops[2].Input.(input).argv))
		}
	}

	// ---- part B: invariants
	for round := 0; round < *stress && failures == 0 && on("B"); round++ {
		vs := redisemu.VerifNewStore("")
		n, m := 8, 300
		var wg sync.WaitGroup
		do := func(cl *redisemu.VerifClient, a ...string) string { r, _ := cl.Dispatch(toArgv(a)); return string(r) }
		seenIncr := make([]map[string]bool, n)
		selectGate := make(chan struct{})
		dbIndex := strconv.Itoa(1 + (round+int(*seed))%15)
		torn := 0
		var tornMu sync.Mutex
		for w := 0; w < n; w++ {
			wg.Add(1)
			seenIncr[w] = map[string]bool{}
			go func(w int) {
				defer wg.Done()
				cl := vs.NewClient()
				defer cl.Close()
				prelude(cl, w+round)
				// all connections select the same database, never used before, at the same moment: they
				// must end up in ONE database
				<-selectGate
				do(cl, "SELECT", dbIndex)
				for i := 0; i < m; i++ {
					seenIncr[w][do(cl, "INCR", "ctr")] = true
					do(cl, "APPEND", "app", "x")
					do(cl, "HINCRBY", "h", "f", "1")
					do(cl, "RPUSH", "q", fmt.Sprintf("%d-%d", w, i))
					do(cl, "LMOVE", "q", "q2", "LEFT", "RIGHT")
					do(cl, "SADD", "sa", fmt.Sprintf("%d-%d", w, i))
					do(cl, "SMOVE", "sa", "sb", fmt.Sprintf("%d-%d", w, i))
					v := strconv.Itoa(w*1000 + i)
					do(cl, "MSET", "p1", v, "p2", v)
					if r := do(cl, "MGET", "p1", "p2"); true {
						parts := strings.Split(r, "\r\n")
						if len(parts) >= 5 && parts[2] != parts[4] {
							tornMu.Lock()
							torn++
							tornMu.Unlock()
						}
					}
					if i%10 == 0 {
						do(cl, "RENAME", "ctr", "ctr") // same name: must not disturb the counter
					}
				}
			}(w)
		}
		time.Sleep(2 * time.Millisecond)
		close(selectGate)
		wg.Wait()
		cl := vs.NewClient()
		do(cl, "SELECT", dbIndex)
		total := n * m
		distinct := map[string]bool{}
		for _, s := range seenIncr {
			for k := range s {
				distinct[k] = true
			}
		}
		checks := []struct {
			what, got, want string
		}{
			{"INCR final value", do(cl, "GET", "ctr"), bulk(strconv.Itoa(total))},
			{"APPEND final length", do(cl, "STRLEN", "app"), integer(total)},
			{"HINCRBY final value", do(cl, "HGET", "h", "f"), bulk(strconv.Itoa(total))},
			{"elements moved by LMOVE", do(cl, "LLEN", "q2"), integer(total)},
			{"elements left behind by LMOVE", do(cl, "LLEN", "q"), integer(0)},
			{"members moved by SMOVE", do(cl, "SCARD", "sb"), integer(total)},
			{"members left behind by SMOVE", do(cl, "SCARD", "sa"), integer(0)},
		}
		for _, c := range checks {
			stats["invariant_checks"]++
			if c.got != c.want {
				fail("invariant", round, []string{fmt.Sprintf("%d connections x %d rounds of INCR/APPEND/HINCRBY/RPUSH+LMOVE/SADD+SMOVE/MSET+MGET", n, m)},
					fmt.Sprintf("%s: got %q, every sequential execution gives %q (lost update)", c.what, c.got, c.want))
				break
			}
		}
		if failures == 0 && len(distinct) != total {
			fail("invariant", round, nil, fmt.Sprintf("INCR replies: %d distinct values for %d increments (two connections saw the same value)", len(distinct), total))
		}
		if failures == 0 && torn > 0 {
			fail("invariant", round, nil, fmt.Sprintf("MGET p1 p2 saw %d half-applied MSET p1 v p2 v", torn))
		}
		cl.Close()
		stats["stress_rounds"]++
		stats["stress_operations"] += total * 9
	}
	// ---- part C: multi-key atomicity. A group of keys is only ever changed as a whole (MSET of one
	// value, MSETNX, DEL, UNLINK, RENAME of a pair), so every linearizable execution shows it to a
	// reader either completely present with one value or completely absent; barrier-synchronised
	// rounds of competing MSETNX on overlapping fresh keys have exactly the winners a sequential order allows.
	for round := 0; round < *stress && failures == 0 && on("C"); round++ {
		vs := redisemu.VerifNewStore("")
		do := func(cl *redisemu.VerifClient, a ...string) string { r, _ := cl.Dispatch(toArgv(a)); return string(r) }
		group := []string{"g1", "g2", "g3", "g4"}
		stop := make(chan struct{})
		var wg sync.WaitGroup
		var badMu sync.Mutex
		var bad []string
		note := func(sx string) {
			badMu.Lock()
			if len(bad) < 5 {
				bad = append(bad, sx)
			}
			badMu.Unlock()
		}
		for w := 0; w < 3; w++ {
			wg.Add(1)
			go func(w int) {
				defer wg.Done()
				cl := vs.NewClient()
				defer cl.Close()
				prelude(cl, w+round)
				r := rand.New(rand.NewSource(*seed*7919 + int64(round*13+w)))
				for i := 0; ; i++ {
					select {
					case <-stop:
						return
					default:
					}
					v := strconv.Itoa(w*100000 + i)
					switch r.Intn(5) {
					case 0:
						do(cl, "MSET", "g1", v, "g2", v, "g3", v, "g4", v)
					case 1:
						do(cl, "MSETNX", "g1", v, "g2", v, "g3", v, "g4", v)
					case 2:
						do(cl, append([]string{"DEL"}, group...)...)
					case 3:
						do(cl, append([]string{"UNLINK"}, group...)...)
					case 4:
						do(cl, "MSET", "g4", v, "g3", v, "g2", v, "g1", v)
					}
				}
			}(w)
		}
		observations := 0
		var obsMu sync.Mutex
		for rd := 0; rd < 4; rd++ {
			wg.Add(1)
			go func(rd int) {
				defer wg.Done()
				cl := vs.NewClient()
				defer cl.Close()
				prelude(cl, rd+round+1)
				n := 0
				for i := 0; i < 6000; i++ {
					if i%2 == 0 {
						if r := do(cl, append([]string{"EXISTS"}, group...)...); r != ":0\r\n" && r != ":4\r\n" {
							note("EXISTS g1 g2 g3 g4 -> " + strconv.Quote(r))
						}
					} else {
						r := do(cl, append([]string{"MGET"}, group...)...)
						parts := strings.Split(r, "\r\n")
						// *4 then either $-1 x4 or ($n, v) x4
						vals := []string{}
						for j := 1; j < len(parts); j++ {
							if parts[j] == "$-1" {
								vals = append(vals, "<nil>")
							} else if strings.HasPrefix(parts[j], "$") && j+1 < len(parts) {
								vals = append(vals, parts[j+1])
								j++
							}
						}
						for _, x := range vals {
							if len(vals) != 4 || x != vals[0] {
								note("MGET g1 g2 g3 g4 -> " + strconv.Quote(r))
								break
							}
						}
					}
					n++
				}
				obsMu.Lock()
				observations += n
				obsMu.Unlock()
			}(rd)
		}
		// readers finish on their own; then stop the writers
		go func() {
			for {
				obsMu.Lock()
				done := observations >= 4*6000
				obsMu.Unlock()
				if done {
					close(stop)
					return
				}
				time.Sleep(time.Millisecond)
			}
		}()
		wg.Wait()
		stats["group_observations"] += observations
		if len(bad) > 0 {
			fail("group", round, bad, "a reader saw a group of keys that is only ever written or removed as a whole in a partial state: "+bad[0])
			break
		}

		// competing MSETNX
		const workers = 4
		rounds := 4000
		replies := make([][]string, workers)
		var bwg sync.WaitGroup
		gate := make([]chan struct{}, rounds)
		for i := range gate {
			gate[i] = make(chan struct{})
		}
		doneCh := make(chan int, workers)
		keyOf := func(i, j int) string { return fmt.Sprintf("n%d-%d", i%7, j) } // 7 reused key rings
		cls := make([]*redisemu.VerifClient, workers)
		for w := 0; w < workers; w++ {
			cls[w] = vs.NewClient()
			replies[w] = make([]string, rounds)
		}
		ctl := vs.NewClient()
		for w := 0; w < workers; w++ {
			bwg.Add(1)
			go func(w int) {
				defer bwg.Done()
				for i := 0; i < rounds; i++ {
					<-gate[i]
					// worker w claims ring positions w and w+1: neighbours overlap in one key
					replies[w][i] = do(cls[w], "MSETNX", keyOf(i, w), strconv.Itoa(w), keyOf(i, (w+1)%workers), strconv.Itoa(w))
					doneCh <- w
				}
			}(w)
		}
		for i := 0; i < rounds && failures == 0; i++ {
			// fresh ring
			del := []string{"DEL"}
			for j := 0; j < workers; j++ {
				del = append(del, keyOf(i, j))
			}
			do(ctl, del...)
			close(gate[i])
			for w := 0; w < workers; w++ {
				<-doneCh
			}
			// winners must be pairwise non-adjacent, and every key holds the value of a winner that claimed it
			won := make([]bool, workers)
			for w := 0; w < workers; w++ {
				won[w] = replies[w][i] == ":1\r\n"
			}
			problem := ""
			for w := 0; w < workers; w++ {
				if won[w] && won[(w+1)%workers] {
					problem = fmt.Sprintf("MSETNX of workers %d and %d both replied 1 although they share key %s", w, (w+1)%workers, keyOf(i, (w+1)%workers))
				}
			}
			for j := 0; j < workers && problem == ""; j++ {
				got := do(ctl, "GET", keyOf(i, j))
				// key j is claimed by worker j (first key) and worker j-1 (second key)
				a, b := j, (j+workers-1)%workers
				want := nilReply
				if won[a] {
					want = bulk(strconv.Itoa(a))
				} else if won[b] {
					want = bulk(strconv.Itoa(b))
				}
				if got != want {
					problem = fmt.Sprintf("after the round key %s holds %q, the replies %v imply %q", keyOf(i, j), got, won, want)
				}
			}
			if problem == "" {
				any := false
				for _, x := range won {
					any = any || x
				}
				if !any {
					problem = "no MSETNX on a completely fresh ring succeeded"
				}
			}
			stats["msetnx_rounds"]++
			if problem != "" {
				fail("msetnx", round, []string{fmt.Sprintf("%d connections, each MSETNX ring[w] w ring[w+1] w on a fresh ring, released together", workers)}, problem)
			}
		}
		if failures > 0 {
			// release the workers still waiting on later gates
			for i := range gate {
				select {
				case <-gate[i]:
				default:
					close(gate[i])
				}
			}
			go func() {
				for range doneCh {
				}
			}()
		}
		bwg.Wait()
	}
	// ---- part D: a command issued while a long transaction owns the database. The transaction reads,
	// deletes and re-creates the keys the command works on, so a command that looks at the database before
	// it has the lock (or keeps using what it found after releasing it) applies its effect to an object
	// that is gone. Whatever the interleaving, the two replies and the final content must be those of one
	// of the two sequential orders, which are obtained by running them one after the other.
	if failures == 0 && on("D") {
		type outcome struct{ tx, x, final string }
		observe := func(cl *redisemu.VerifClient) string {
			do := func(a ...string) string { r, _ := cl.Dispatch(toArgv(a)); return string(r) }
			var parts []string
			for _, k := range []string{"h", "s", "n", "l", "st", "l2", "st2", "s2"} {
				t := do("TYPE", k)
				v := ""
				switch {
				case strings.Contains(t, "hash"):
					e := strings.Split(do("HGETALL", k), "\r\n")
					sort.Strings(e)
					v = strings.Join(e, ",")
				case strings.Contains(t, "list"):
					v = do("LRANGE", k, "0", "-1")
				case strings.Contains(t, "set"):
					e := strings.Split(do("SMEMBERS", k), "\r\n")
					sort.Strings(e)
					v = strings.Join(e, ",")
				case strings.Contains(t, "string"):
					v = do("GET", k)
				}
				parts = append(parts, k+"="+strings.TrimSpace(t)+":"+v)
			}
			return strings.Join(parts, ";")
		}
		setup := func(cl *redisemu.VerifClient) {
			for _, c := range [][]string{{"HSET", "h", "f", "1", "g", "x"}, {"SET", "s", "abc"}, {"SET", "n", "5"}, {"RPUSH", "l", "a", "b"}, {"SADD", "st", "a", "b"}} {
				cl.Dispatch(toArgv(c))
			}
		}
		runTx := func(cl *redisemu.VerifClient, pings int, beforeExec func()) string {
			do := func(a ...string) string { r, _ := cl.Dispatch(toArgv(a)); return string(r) }
			do("MULTI")
			do("HGET", "h", "f")
			do("GET", "s")
			do("GET", "n")
			do("LRANGE", "l", "0", "-1")
			do("SCARD", "st")
			for i := 0; i < pings; i++ {
				do("PING")
			}
			do("DEL", "h", "s", "n", "l", "st")
			do("HSET", "h", "f", "10")
			do("SET", "s", "xyz")
			do("SET", "n", "50")
			do("RPUSH", "l", "q")
			do("SADD", "st", "z")
			if beforeExec != nil {
				beforeExec()
			}
			r := do("EXEC")
			// the replies of the reads at the head and of the writes at the tail; the PONGs in between are dropped
			parts := strings.Split(r, "+PONG\r\n")
			head := parts[0]
			if i := strings.Index(head, "\r\n"); i >= 0 && strings.HasPrefix(head, "*") {
				head = head[i+2:] // the element count depends on the number of PINGs
			}
			return head + "|" + parts[len(parts)-1]
		}
		singles := [][]string{{"HINCRBYFLOAT", "h", "f", "1.5"}, {"HINCRBY", "h", "f", "2"}, {"HSET", "h", "f", "7"}, {"HDEL", "h", "f"},
			{"HSETNX", "h", "n", "1"}, {"APPEND", "s", "x"}, {"INCR", "n"}, {"INCRBYFLOAT", "n", "0.5"}, {"DECRBY", "n", "3"}, {"LPUSH", "l", "c"},
			{"RPOP", "l"}, {"LSET", "l", "0", "w"}, {"LINSERT", "l", "BEFORE", "a", "i"}, {"LREM", "l", "0", "a"}, {"LTRIM", "l", "1", "-1"},
			{"SADD", "st", "m"}, {"SREM", "st", "a"}, {"SETRANGE", "s", "1", "Z"}, {"GETSET", "s", "q"}, {"GETDEL", "s"},
			{"LMOVE", "l", "l2", "LEFT", "RIGHT"}, {"SMOVE", "st", "st2", "a"}, {"RENAME", "s", "s2"}, {"COPY", "s", "s2", "REPLACE"},
			{"SETBIT", "s", "9", "1"}, {"BITFIELD", "s", "INCRBY", "u8", "0", "1"}, {"EXPIRE", "h", "100"}, {"PERSIST", "s"}, {"SETNX", "n", "9"},
			{"MSETNX", "s", "1", "zz", "2"}, {"SINTERSTORE", "st2", "st", "st"}, {"BITOP", "NOT", "s2", "s"}, {"GETEX", "s", "PERSIST"},
			{"HINCRBYFLOAT", "newh", "f", "2.5"}, {"TTL", "h"}, {"GETBIT", "s", "1"}, {"BITCOUNT", "s"}, {"STRLEN", "s"}, {"TYPE", "h"}}
		for _, x := range singles {
			if failures > 0 {
				break
			}
			seq := func(txFirst bool) outcome {
				vs := redisemu.VerifNewStore("")
				a, b := vs.NewClient(), vs.NewClient()
				defer a.Close()
				defer b.Close()
				setup(a)
				var o outcome
				if txFirst {
					o.tx = runTx(a, 3, nil)
					r, _ := b.Dispatch(toArgv(x))
					o.x = string(r)
				} else {
					r, _ := b.Dispatch(toArgv(x))
					o.x = string(r)
					o.tx = runTx(a, 3, nil)
				}
				o.final = observe(a)
				return o
			}
			o1, o2 := seq(true), seq(false)
			for rep := 0; rep < 3 && failures == 0; rep++ {
				vs := redisemu.VerifNewStore("")
				a, b := vs.NewClient(), vs.NewClient()
				setup(a)
				var got outcome
				var wg sync.WaitGroup
				wg.Add(1)
				// queue the transaction first (queueing takes no lock), then let EXEC and the command race
				do := func(cl *redisemu.VerifClient, c ...string) string { r, _ := cl.Dispatch(toArgv(c)); return string(r) }
				started := make(chan struct{})
				go func() {
					defer wg.Done()
					got.tx = runTx(a, 30000, func() { close(started) })
				}()
				<-started
				time.Sleep(time.Duration(1+rep*3) * time.Millisecond) // the EXEC with its 30000 PINGs is under way
				got.x = do(b, x...)
				wg.Wait()
				got.final = observe(a)
				stats["pair_checks"]++
				if got != o1 && got != o2 {
					fail("pair", rep, []string{"setup: HSET h f 1 g x; SET s abc; SET n 5; RPUSH l a b; SADD st a b",
						"A: MULTI; HGET h f; GET s; GET n; LRANGE l 0 -1; SCARD st; PING x 30000; DEL h s n l st; HSET h f 10; SET s xyz; SET n 50; RPUSH l q; SADD st z; EXEC",
						"B (while A's EXEC runs): " + strings.Join(x, " ")},
						fmt.Sprintf("observed (EXEC %q, command %q, final %q) is neither 'transaction first' (%q, %q, %q) nor 'command first' (%q, %q, %q)",
							got.tx, got.x, got.final, o1.tx, o1.x, o1.final, o2.tx, o2.x, o2.final))
				}
				a.Close()
				b.Close()
			}
		}
	}
	// ---- part E: operations on all databases against a transaction that contains one: both finish
	for rep := 0; rep < 6 && failures == 0 && on("E"); rep++ {
		vs := redisemu.VerifNewStore("")
		a, b := vs.NewClient(), vs.NewClient()
		do := func(cl *redisemu.VerifClient, c ...string) string { r, _ := cl.Dispatch(toArgv(c)); return string(r) }
		do(b, "SELECT", "1")
		do(b, "SET", "other", "1")
		started := make(chan struct{})
		fin := make(chan string, 2)
		go func() {
			do(a, "MULTI")
			for i := 0; i < 20000; i++ {
				do(a, "PING")
			}
			do(a, "FLUSHALL")
			do(a, "SET", "s", "after")
			close(started)
			do(a, "EXEC")
			fin <- "A"
		}()
		<-started
		time.Sleep(time.Duration(1+rep) * time.Millisecond)
		go func() {
			do(b, []string{"FLUSHALL", "FLUSHDB", "FLUSHALL"}[rep%3])
			fin <- "B"
		}()
		for n := 0; n < 2; n++ {
			select {
			case <-fin:
			case <-time.After(20 * time.Second):
				fail("flush-pair", rep, []string{"A: MULTI; PING x 20000; FLUSHALL; SET s after; EXEC", "B (database 1, while A's EXEC runs): FLUSHALL"},
					"the transaction and the other connection's flush did not both finish within 20 s: they wait for each other")
				n = 2
			}
		}
		stats["flush_pair_checks"]++
		if failures == 0 {
			a.Close()
			b.Close()
		}
	}
	// ---- part E2: a transaction that changes its database and flushes it (MULTI / … / SELECT 0 / FLUSHDB /
	// EXEC, issued from database 1) against FLUSHALL of another connection: both finish (D91)
	for rep := 0; rep < 4 && failures == 0 && on("E"); rep++ {
		vs := redisemu.VerifNewStore("")
		a, b := vs.NewClient(), vs.NewClient()
		do := func(cl *redisemu.VerifClient, c ...string) string { r, _ := cl.Dispatch(toArgv(c)); return string(r) }
		do(b, "SET", "zero", "0")
		do(a, "SELECT", "1")
		do(a, "SET", "one", "1")
		started := make(chan struct{})
		fin := make(chan string, 2)
		go func() {
			do(a, "MULTI")
			for i := 0; i < 30000; i++ {
				do(a, "PING")
			}
			do(a, "SELECT", "0")
			do(a, "FLUSHDB")
			close(started)
			do(a, "EXEC")
			fin <- "A"
		}()
		<-started
		time.Sleep(time.Duration(1+rep) * time.Millisecond)
		go func() {
			do(b, "FLUSHALL")
			fin <- "B"
		}()
		for n := 0; n < 2; n++ {
			select {
			case <-fin:
			case <-time.After(20 * time.Second):
				fail("flush-pair", 100+rep, []string{"A (database 1): MULTI; PING x 30000; SELECT 0; FLUSHDB; EXEC", "B (database 0, while A's EXEC runs): FLUSHALL"},
					"the transaction and the other connection's FLUSHALL did not both finish within 20 s: each holds a data store the other one waits for")
				n = 2
			}
		}
		stats["flush_pair_checks"]++
		if failures == 0 {
			a.Close()
			b.Close()
		}
	}
	// ---- part F: large values. One connection rewrites a 256 KiB string as a whole (all bits set, all
	// bits clear) with commands that keep its length; the others count and read its bits. A reader that
	// sees some of the new bytes and some of the old ones has observed half a command.
	for round := 0; round < (*stress+1)/2 && failures == 0 && on("F"); round++ {
		vs := redisemu.VerifNewStore("")
		do := func(cl *redisemu.VerifClient, a ...string) string { r, _ := cl.Dispatch(toArgv(a)); return string(r) }
		size := 256 * 1024
		var largeReads int64
		ones, zeros := strings.Repeat("\xff", size), strings.Repeat("\x00", size)
		w := vs.NewClient()
		do(w, "SET", "big", zeros)
		stop := make(chan struct{})
		var wg sync.WaitGroup
		var badMu sync.Mutex
		bad := ""
		for rd := 0; rd < 3; rd++ {
			wg.Add(1)
			go func(rd int) {
				defer wg.Done()
				cl := vs.NewClient()
				defer cl.Close()
				all := integer(size * 8)
				for i := 0; ; i++ {
					select {
					case <-stop:
						return
					default:
					}
					var what, r string
					switch (i + rd) % 3 {
					case 0:
						what = "BITCOUNT big"
						r = do(cl, "BITCOUNT", "big")
						if r == ":0\r\n" || r == all {
							r = ""
						}
					case 1:
						what = "BITPOS big 1 / BITPOS big 0"
						p1, p0 := do(cl, "BITPOS", "big", "1"), do(cl, "BITPOS", "big", "0")
						// all clear: (-1, 0); all set: (0, size*8 or -1)
						if !(p1 == ":-1\r\n" || p1 == ":0\r\n") || !(p0 == ":0\r\n" || p0 == all || p0 == ":-1\r\n") {
							r = p1 + " " + p0
						}
					default:
						what = "GETRANGE big 0 -1"
						v := do(cl, "GET", "big")
						if i := strings.Index(v, "\r\n"); i >= 0 && len(v) >= i+2+size {
							body := v[i+2 : i+2+size]
							if body[0] != body[size-1] || body[0] != body[size/2] || strings.Count(body, body[:1]) != size {
								r = fmt.Sprintf("a value of %d bytes that is neither all 0x00 nor all 0xff", size)
							}
						}
					}
					if r != "" {
						badMu.Lock()
						if bad == "" {
							bad = fmt.Sprintf("%s -> %.80q while the only writer alternates between all bits set and all bits clear", what, r)
						}
						badMu.Unlock()
						return
					}
					atomic.AddInt64(&largeReads, 1)
				}
			}(rd)
		}
		for i := 0; i < 150; i++ {
			v := zeros
			if i%2 == 0 {
				v = ones
			}
			// every write replaces the whole value and keeps its length
			switch i % 3 {
			case 0, 1:
				do(w, "SETRANGE", "big", "0", v)
			default:
				do(w, "SET", "big", v)
			}
		}
		close(stop)
		wg.Wait()
		w.Close()
		stats["large_value_rounds"]++
		stats["large_value_reads"] += int(atomic.SwapInt64(&largeReads, 0))
		if bad != "" && !strings.Contains(bad, "neither all") {
			fail("large-value", round, []string{"writer: SETRANGE big 0 <256 KiB of 0xff> / SET big <256 KiB of 0x00> / ...", "readers: BITCOUNT big, BITPOS big, GET big"}, bad)
		}
	}
	// ---- part G: optimistic locking. Every connection increments one counter with WATCH / GET / MULTI /
	// SET / EXEC. EXEC checks the watched key and runs the queue as one step, so every EXEC that answers
	// an array has added exactly one: the final value is the number of those.
	for round := 0; round < *stress && failures == 0 && on("G"); round++ {
		vs := redisemu.VerifNewStore("")
		do := func(cl *redisemu.VerifClient, a ...string) string { r, _ := cl.Dispatch(toArgv(a)); return string(r) }
		init := vs.NewClient()
		do(init, "SET", "occ", "0")
		do(init, "SELECT", "1")
		do(init, "SET", "elsewhere", "x")
		var wg sync.WaitGroup
		var okCount int64
		var attempts int64
		deadline := time.Now().Add(400 * time.Millisecond)
		for w := 0; w < 8; w++ {
			wg.Add(1)
			go func(w int) {
				defer wg.Done()
				cl := vs.NewClient()
				defer cl.Close()
				for time.Now().Before(deadline) {
					do(cl, "WATCH", "occ")
					v := do(cl, "GET", "occ")
					parts := strings.Split(v, "\r\n")
					if len(parts) < 2 {
						continue
					}
					n, _ := strconv.Atoi(parts[1])
					do(cl, "MULTI")
					if w%4 == 3 {
						do(cl, "DBSIZE") // a longer queue
					}
					do(cl, "SET", "occ", strconv.Itoa(n+1))
					r := do(cl, "EXEC")
					atomic.AddInt64(&attempts, 1)
					if strings.HasPrefix(r, "*") && !strings.HasPrefix(r, "*-1") {
						atomic.AddInt64(&okCount, 1)
					}
				}
			}(w)
		}
		wg.Wait()
		got := do(init, "SELECT", "0") + do(init, "GET", "occ")
		want := "+OK\r\n" + bulk(strconv.FormatInt(okCount, 10))
		stats["optimistic_rounds"]++
		stats["optimistic_transactions"] += int(attempts)
		stats["optimistic_committed"] += int(okCount)
		if got != want {
			fail("optimistic", round, []string{"8 connections: WATCH occ / GET occ / MULTI / SET occ <value+1> / EXEC"},
				fmt.Sprintf("%d EXECs answered an array (each adds one to the counter), the counter ends at %.40q: an EXEC ran although the watched key had been modified since WATCH", okCount, got))
		}
		init.Close()
	}
	// ---- part H: a transaction is all or nothing even when its connection is being closed. (1) the
	// transaction kills its own connection half-way; (2) another connection kills it while a long EXEC runs.
	for round := 0; round < *stress && failures == 0 && on("H"); round++ {
		vs := redisemu.VerifNewStore("")
		do := func(cl *redisemu.VerifClient, a ...string) string { r, _ := cl.Dispatch(toArgv(a)); return string(r) }
		a, b := vs.NewClient(), vs.NewClient()
		id := strconv.FormatInt(int64(a.ID()), 10)
		do(a, "MULTI")
		do(a, "SET", "ka", "1")
		do(a, "CLIENT", "KILL", "ID", id, "SKIPME", "no")
		do(a, "SET", "kb", "2")
		do(a, "INCR", "kc")
		r := do(a, "EXEC")
		stats["kill_in_transaction_checks"]++
		got := do(b, "MGET", "ka", "kb", "kc")
		want := "*3\r\n" + bulk("1") + bulk("2") + bulk("1")
		if got != want || !strings.HasPrefix(r, "*4\r\n+OK\r\n") || !strings.HasSuffix(r, "+OK\r\n:1\r\n") {
			fail("kill-in-transaction", round, []string{"A: MULTI / SET ka 1 / CLIENT KILL ID <A> SKIPME no / SET kb 2 / INCR kc / EXEC", "B: MGET ka kb kc"},
				fmt.Sprintf("EXEC answered %.120q and another connection reads ka kb kc = %.120q: the commands queued after the kill were not executed (a transaction runs completely or not at all)", r, got))
			break
		}
		// (2)
		c, d := vs.NewClient(), vs.NewClient()
		cid := strconv.FormatInt(int64(c.ID()), 10)
		do(c, "MULTI")
		n := 20000
		for i := 0; i < n; i++ {
			do(c, "INCR", "long")
		}
		fin := make(chan string, 1)
		go func() { fin <- do(c, "EXEC") }()
		time.Sleep(time.Duration(200+round*300) * time.Microsecond)
		do(d, "CLIENT", "KILL", "ID", cid)
		select {
		case <-fin:
		case <-time.After(20 * time.Second):
			fail("kill-in-transaction", round, nil, "EXEC of 20000 INCRs did not return within 20 s after CLIENT KILL of its connection")
		}
		if failures == 0 {
			if v := do(d, "GET", "long"); v != bulk(strconv.Itoa(n)) && v != "$-1\r\n" {
				fail("kill-in-transaction", round, []string{"C: MULTI / INCR long x 20000 / EXEC", "D (while the EXEC runs): CLIENT KILL ID <C>"},
					fmt.Sprintf("after the transaction the counter is %.40q: part of the queue was executed and the rest dropped", v))
			}
		}
		stats["kill_during_exec_checks"]++
		b.Close()
		d.Close()
	}
	// ---- part I: a transaction is one unit for everybody else, also when it only reads. Writers rewrite eight
	// keys with one generation number per transaction; readers read the eight keys in one transaction and must
	// see one generation.
	for round := 0; round < *stress && failures == 0 && on("I"); round++ {
		vs := redisemu.VerifNewStore("")
		do := func(cl *redisemu.VerifClient, a ...string) string { r, _ := cl.Dispatch(toArgv(a)); return string(r) }
		keys := []string{"t1", "t2", "t3", "t4", "t5", "t6", "t7", "t8"}
		stop := make(chan struct{})
		var wg sync.WaitGroup
		var badMu sync.Mutex
		bad := ""
		for w := 0; w < 2; w++ {
			wg.Add(1)
			go func(w int) {
				defer wg.Done()
				cl := vs.NewClient()
				defer cl.Close()
				for i := 0; ; i++ {
					select {
					case <-stop:
						return
					default:
					}
					v := fmt.Sprintf("%d-%d", w, i)
					do(cl, "MULTI")
					for _, k := range keys {
						do(cl, "SET", k, v)
					}
					do(cl, "EXEC")
				}
			}(w)
		}
		var reads int64
		for rd := 0; rd < 3; rd++ {
			wg.Add(1)
			go func(rd int) {
				defer wg.Done()
				cl := vs.NewClient()
				defer cl.Close()
				for i := 0; i < 1500; i++ {
					do(cl, "MULTI")
					for _, k := range keys {
						if rd == 2 {
							do(cl, "STRLEN", k)
						}
						do(cl, "GET", k)
					}
					r := do(cl, "EXEC")
					atomic.AddInt64(&reads, 1)
					parts := strings.Split(r, "\r\n")
					var vals []string
					for j := 1; j < len(parts); j++ {
						if strings.HasPrefix(parts[j], "$") && parts[j] != "$-1" && j+1 < len(parts) {
							vals = append(vals, parts[j+1])
							j++
						} else if parts[j] == "$-1" {
							vals = append(vals, "<nil>")
						}
					}
					for _, x := range vals {
						if x != vals[0] {
							badMu.Lock()
							if bad == "" {
								bad = fmt.Sprintf("one transaction of reads saw %v", vals)
							}
							badMu.Unlock()
							return
						}
					}
				}
			}(rd)
		}
		go func() {
			time.Sleep(1500 * time.Millisecond)
			close(stop)
		}()
		wg.Wait()
		stats["read_transaction_rounds"]++
		stats["read_transactions"] += int(reads)
		if bad != "" {
			fail("read-transaction", round, []string{"writers: MULTI / SET t1..t8 <generation> / EXEC", "readers: MULTI / GET t1..t8 / EXEC"},
				bad+": the transaction of another connection was observed half-done (EXEC is one unit for everybody else, whatever it contains)")
		}
	}
	// ---- part J: connections that select the same database for the first time at the same moment end up in
	// ONE database: many short attempts (a fresh store each, all connections released together, SELECT n, INCR)
	if failures == 0 && on("J") {
		attempts := 120 * *stress
		for att := 0; att < attempts && failures == 0; att++ {
			vs := redisemu.VerifNewStore("")
			n := 6
			idx := strconv.Itoa(1 + att%15)
			var wg sync.WaitGroup
			var arrived int32
			replies := make([]string, n)
			sel := toArgv([]string{"SELECT", idx})
			for w := 0; w < n; w++ {
				wg.Add(1)
				go func(w int) {
					defer wg.Done()
					cl := vs.NewClient()
					defer cl.Close()
					// a spinning barrier: everybody leaves within a fraction of a microsecond
					atomic.AddInt32(&arrived, 1)
					for atomic.LoadInt32(&arrived) < int32(n) {
					}
					cl.Dispatch(sel)
					r, _ := cl.Dispatch(toArgv([]string{"INCR", "first-use"}))
					replies[w] = string(r)
				}(w)
			}
			wg.Wait()
			seen := map[string]bool{}
			for _, r := range replies {
				seen[r] = true
			}
			stats["first_select_attempts"]++
			if len(seen) != n {
				sort.Strings(replies)
				fail("first-select", att, []string{fmt.Sprintf("%d connections: SELECT %s; INCR first-use — released together on a store where database %s has never been used", n, idx, idx)},
					fmt.Sprintf("the INCR replies %q are not 1..%d: the connections do not share one database %s", replies, n, idx))
			}
		}
	}
	res := map[string]any{"stats": stats, "samples": samples, "failures": failures, "wall_s": time.Since(start).Seconds()}
	if *out != "" {
		data, _ := json.MarshalIndent(res, "", " ")
		os.WriteFile(*out, data, 0o644)
	}
	fmt.Printf("lin %v failures=%d wall=%.1fs\n", stats, failures, time.Since(start).Seconds())
	if failures > 0 {
		os.Exit(1)
	}
}
