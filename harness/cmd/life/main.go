// life: C20. Start/stop cycles of real emulators on one port with clients in every activity state
// (idle, in the middle of a pipelined write, inside MULTI, blocked with timeout 0), two instances in
// one process. Checked: Close returns within a bound, old connections are no longer served, the port
// can be bound again at once, the successor starts empty, instances do not see each other's data or
// clients.
package main

import (
	"bufio"
	"context"
	"encoding/json"
	"flag"
	"fmt"
	"math/rand"
	"net"
	"os"
	"runtime"
	"strings"
	"sync/atomic"
	"time"

	"github.com/jimsnab/go-lane"
	redisemu "github.com/jimsnab/go-redisemu"
)

func freePort() int {
	l, err := net.Listen("tcp", "127.0.0.1:0")
	if err != nil {
		panic(err)
	}
	p := l.Addr().(*net.TCPAddr).Port
	l.Close()
	return p
}

func cmd(args ...string) []byte {
	s := fmt.Sprintf("*%d\r\n", len(args))
	for _, a := range args {
		s += fmt.Sprintf("$%d\r\n%s\r\n", len(a), a)
	}
	return []byte(s)
}

type client struct {
	c net.Conn
	r *bufio.Reader
}

func dial(port int) (*client, error) {
	var last error
	for i := 0; i < 30; i++ {
		c, err := net.DialTimeout("tcp", fmt.Sprintf("127.0.0.1:%d", port), 300*time.Millisecond)
		if err == nil {
			return &client{c, bufio.NewReader(c)}, nil
		}
		last = err
		time.Sleep(10 * time.Millisecond)
	}
	return nil, last
}

// roundtrip sends one command and reads one line (enough to tell "served" from "closed")
func (cl *client) roundtrip(timeout time.Duration, args ...string) (string, error) {
	cl.c.SetDeadline(time.Now().Add(timeout))
	if _, err := cl.c.Write(cmd(args...)); err != nil {
		return "", err
	}
	line, err := cl.r.ReadString('\n')
	if err != nil {
		return line, err
	}
	if strings.HasPrefix(line, "$") && !strings.HasPrefix(line, "$-1") {
		body, err2 := cl.r.ReadString('\n')
		return line + body, err2
	}
	return line, nil
}

// stallNs: the longest gap between two ticks of a 20 ms ticker of this process since the last reset. A gap of seconds
// means the whole process (harness and emulator alike) was not running — a stopped or thrashing machine — and a
// duration measured across it says nothing about the emulator.
var stallNs atomic.Int64

func watchStalls() {
	last := time.Now()
	for {
		time.Sleep(20 * time.Millisecond)
		now := time.Now()
		if gap := int64(now.Sub(last)); gap > stallNs.Load() {
			stallNs.Store(gap)
		}
		last = now
	}
}

func main() {
	go watchStalls()
	seed := flag.Int64("seed", 1, "seed")
	cycles := flag.Int("cycles", 12, "start/stop cycles")
	prop := flag.String("property", "C20", "property")
	out := flag.String("out", "", "stats json")
	replayDir := flag.String("replays", "/verif/replays", "replay dir")
	flag.Parse()
	start := time.Now()
	r := rand.New(rand.NewSource(*seed))
	stats := map[string]int{}
	var samples []string
	failures := 0
	fail := func(cycle int, scenario []string, detail string) {
		failures++
		os.MkdirAll(*replayDir, 0o755)
		path := fmt.Sprintf("%s/%s-life-%d-%d.json", *replayDir, *prop, *seed, cycle)
		data, _ := json.MarshalIndent(map[string]any{"property": *prop, "seed": *seed, "cycle": cycle, "scenario": scenario, "detail": detail}, "", " ")
		os.WriteFile(path, data, 0o644)
		fmt.Printf("LIFE-FAIL property=%s replay=%s detail=%.300s\n", *prop, path, detail)
	}
	port := freePort()
	newEmu := func(p int) *redisemu.RedisEmu {
		emu, err := redisemu.NewEmulator(lane.NewNullLane(context.Background()), p, "127.0.0.1", "", nil)
		if err != nil {
			panic(err)
		}
		emu.Start()
		return emu
	}
	for cycle := 0; cycle < *cycles && failures == 0; cycle++ {
		var scenario []string
		note := func(s string) { scenario = append(scenario, s) }
		emu := newEmu(port)
		note(fmt.Sprintf("start emulator on port %d", port))
		// the successor of the previous cycle must start empty
		probe, err := dial(port)
		if err != nil {
			fail(cycle, scenario, "cannot connect to the freshly started emulator: "+err.Error())
			break
		}
		if line, _ := probe.roundtrip(10*time.Second, "DBSIZE"); line != ":0\r\n" {
			fail(cycle, scenario, fmt.Sprintf("a new emulator without a persist path does not start empty: DBSIZE = %q", line))
			break
		}
		if line, _ := probe.roundtrip(10*time.Second, "GET", "k"); line != "$-1\r\n" {
			fail(cycle, scenario, fmt.Sprintf("a new emulator sees a key of its predecessor: GET k = %q", line))
			break
		}
		probe.roundtrip(10*time.Second, "SET", "k", fmt.Sprintf("cycle%d", cycle))
		probe.roundtrip(10*time.Second, "RPUSH", "q0", "x")
		// clients in different states
		type actor struct {
			name string
			cl   *client
		}
		var actors []actor
		add := func(name string, prep func(cl *client)) {
			cl, err := dial(port)
			if err != nil {
				return
			}
			prep(cl)
			actors = append(actors, actor{name, cl})
			note("client " + name)
		}
		n := 1 + r.Intn(3)
		for i := 0; i < n; i++ {
			add("idle", func(cl *client) { cl.roundtrip(10*time.Second, "PING") })
		}
		add("mid-pipeline", func(cl *client) {
			cl.roundtrip(10*time.Second, "SET", "a", "1")
			cl.c.Write([]byte("*3\r\n$3\r\nSET\r\n$1\r\nb\r\n$10\r\nabc")) // incomplete command left in the buffer
		})
		add("inside MULTI", func(cl *client) {
			cl.roundtrip(10*time.Second, "MULTI")
			cl.roundtrip(10*time.Second, "SET", "m", "1")
		})
		for i := 0; i < 1+r.Intn(2); i++ {
			add("blocked with timeout 0", func(cl *client) {
				cl.c.Write(cmd(pick(r, "BLPOP", "BRPOP"), "emptyq", "0"))
			})
		}
		add("blocked BLMOVE", func(cl *client) { cl.c.Write(cmd("BLMOVE", "emptyq2", "dst", "LEFT", "RIGHT", "0")) })
		if cycle%2 == 1 {
			// a blocked client that another connection kills before the termination: the command it left behind must
			// not keep Close waiting
			if victim, err := dial(port); err == nil {
				line, _ := victim.roundtrip(10*time.Second, "CLIENT", "ID")
				id := strings.TrimSpace(strings.TrimPrefix(line, ":"))
				victim.c.Write(cmd(pick(r, "BLPOP", "BRPOP"), "emptyq3", "0"))
				time.Sleep(20 * time.Millisecond)
				probe.roundtrip(10*time.Second, "CLIENT", "KILL", "ID", id)
				stats["killed_blocked_clients"]++
				note("a blocked client (id " + id + ") killed with CLIENT KILL before the termination")
			}
		}
		bigReply := cycle%3 == 0
		if bigReply {
			// a client that asked for more than the socket buffers hold and does not read: the emulator
			// is in the middle of writing the reply when it is closed
			add("reply half written", func(cl *client) {
				cl.roundtrip(20*time.Second, "SETRANGE", "big", "33554431", "x")
				cl.c.Write(cmd("GET", "big"))
			})
		}
		// a crowd of connections that hang up on their own while the termination walks the client table:
		// a disconnect processed during the walk must not stop it
		var leaving []*client
		crowd := 60 + r.Intn(90)
		for i := 0; i < crowd; i++ {
			if cl, err := dial(port); err == nil {
				if i%8 == 0 {
					cl.roundtrip(10*time.Second, "PING")
				}
				leaving = append(leaving, cl)
			}
		}
		note(fmt.Sprintf("%d connections that close themselves during Close", len(leaving)))
		time.Sleep(time.Duration(5+r.Intn(30)) * time.Millisecond)
		// terminate
		done := make(chan struct{})
		stallNs.Store(0)
		t0 := time.Now()
		pause := time.Duration(5+r.Intn(30)) * time.Microsecond
		go func() {
			for i, cl := range leaving {
				cl.c.Close()
				if i%4 == 0 {
					time.Sleep(pause)
				}
			}
		}()
		go func() { emu.Close(); close(done) }()
		select {
		case <-done:
		case <-time.After(1500 * time.Millisecond):
			// what is Close waiting for?
			buf := make([]byte, 1<<20)
			buf = buf[:runtime.Stack(buf, true)]
			var mine []string
			for _, g := range strings.Split(string(buf), "\n\n") {
				if strings.Contains(g, "go-redisemu.") {
					lines := strings.Split(g, "\n")
					if len(lines) > 12 {
						lines = lines[:12]
					}
					mine = append(mine, strings.Join(lines, "\n"))
				}
			}
			select {
			case <-done:
			case <-time.After(4 * time.Second):
				if stallNs.Load() > int64(time.Second) {
					// the process itself stood still for more than a second in this window: give Close its time again
					select {
					case <-done:
					case <-time.After(10 * time.Second):
						fail(cycle, append(scenario, mine...), "Close() did not return within 15.5 s")
					}
				} else {
					fail(cycle, append(scenario, mine...), "Close() did not return within 5.5 s")
				}
			}
			if failures == 0 {
				note("goroutines of the emulator 1.5 s into Close: " + strings.Join(mine, " || "))
			}
		}
		if failures > 0 {
			break
		}
		took := time.Since(t0)
		stats["close_ms_total"] += int(took.Milliseconds())
		if stall := time.Duration(stallNs.Load()); took > 5*time.Second && stall > time.Second && took-stall <= 5*time.Second {
			// the harness's own 20 ms ticker was late by `stall`: the machine stood still, not the emulator
			stats["close_measurements_void_process_stalled"]++
			note(fmt.Sprintf("Close returned after %v of which the process was not running for %v", took, stall))
		} else if took > 5*time.Second {
			fail(cycle, scenario, fmt.Sprintf("Close() took %v", took))
			break
		}
		note(fmt.Sprintf("Close returned after %v", took))
		// old connections: no data may be read or modified any more
		time.Sleep(50 * time.Millisecond)
		for _, a := range append(actors, actor{"probe (idle)", probe}) {
			// whatever the emulator still sends (the error that ends a blocked command), the connection
			// must reach its end: nothing asked now may be answered, and the socket must be closed
			a.cl.c.SetDeadline(time.Now().Add(1500 * time.Millisecond))
			a.cl.c.Write(cmd("GET", "k"))
			a.cl.c.Write(cmd("SET", "k", "after-close"))
			var got []byte
			buf := make([]byte, 4096)
			var rerr error
			for {
				n, err := a.cl.r.Read(buf)
				got = append(got, buf[:n]...)
				if err != nil {
					rerr = err
					break
				}
			}
			if a.name == "reply half written" {
				// whatever was already in flight may still arrive, the complete 32 MiB value may not
				if len(got) >= 33554432 {
					fail(cycle, scenario, fmt.Sprintf("after Close the old %q connection still received its complete reply (%d bytes): the terminated emulator went on serving it", a.name, len(got)))
					break
				}
				if ne, ok := rerr.(net.Error); ok && ne.Timeout() {
					fail(cycle, scenario, fmt.Sprintf("after Close the old %q connection is still open 1.5 s later (%d bytes received)", a.name, len(got)))
					break
				}
				stats["old_connections_checked"]++
				a.cl.c.Close()
				continue
			}
			text := string(got)
			if strings.Contains(text, fmt.Sprintf("cycle%d", cycle)) || strings.Contains(text, "+OK") || strings.Contains(text, "+QUEUED") {
				fail(cycle, scenario, fmt.Sprintf("after Close the old %q connection is still served: GET k / SET k -> %q", a.name, text))
				break
			}
			if ne, ok := rerr.(net.Error); ok && ne.Timeout() {
				fail(cycle, scenario, fmt.Sprintf("after Close the old %q connection is still open 1.5 s later (received %q, then nothing: neither data nor end of stream)", a.name, text))
				break
			}
			stats["old_connections_checked"]++
			a.cl.c.Close()
		}
		if failures > 0 {
			break
		}
		// new requests are refused
		if c, err := net.DialTimeout("tcp", fmt.Sprintf("127.0.0.1:%d", port), 300*time.Millisecond); err == nil {
			c.SetDeadline(time.Now().Add(300 * time.Millisecond))
			c.Write(cmd("PING"))
			buf := make([]byte, 16)
			if n, _ := c.Read(buf); n > 0 {
				fail(cycle, scenario, fmt.Sprintf("after Close a new connection to the port is answered: %q", buf[:n]))
			}
			c.Close()
		}
		stats["cycles"]++
		if len(samples) < 3 {
			samples = append(samples, strings.Join(scenario, "; "))
		}
	}
	// two instances in one process
	if failures == 0 {
		pa, pb := freePort(), freePort()
		ea, eb := newEmu(pa), newEmu(pb)
		a, _ := dial(pa)
		b, _ := dial(pb)
		a.roundtrip(time.Second, "SET", "shared", "A")
		if line, _ := b.roundtrip(time.Second, "GET", "shared"); line != "$-1\r\n" {
			fail(-1, []string{"two emulators in one process"}, fmt.Sprintf("a key set through one emulator is visible through the other: %q", line))
		}
		// CLIENT LIST of A must not show B's connection
		a.c.SetDeadline(time.Now().Add(time.Second))
		a.c.Write(cmd("CLIENT", "LIST"))
		hdr, _ := a.r.ReadString('\n')
		body := ""
		if strings.HasPrefix(hdr, "$") {
			var n int
			fmt.Sscanf(hdr, "$%d", &n)
			buf := make([]byte, n+2)
			for got := 0; got < len(buf); {
				k, err := a.r.Read(buf[got:])
				if err != nil {
					break
				}
				got += k
			}
			body = string(buf)
		}
		lines := strings.Count(body, "\n") - 1
		if strings.Count(body, "id=") != 1 {
			fmt.Printf("KNOWN-OBSERVED D52 CLIENT LIST on one emulator lists %d connections (its own and the other instance's)\n", strings.Count(body, "id="))
			stats["d52_observed"]++
		}
		_ = lines
		// closing A must not disturb B, and must not wait for B's clients either
		closed := make(chan struct{})
		go func() { ea.Close(); close(closed) }()
		select {
		case <-closed:
		case <-time.After(5 * time.Second):
			fail(-1, []string{"two emulators in one process, one idle client on each", "close the first"},
				"Close() of one emulator did not return within 5 s while an idle client is connected to the other emulator")
		}
		if line, err := b.roundtrip(time.Second, "PING"); err != nil || line != "+PONG\r\n" {
			fail(-1, []string{"two emulators in one process", "close the first"}, fmt.Sprintf("closing one emulator disturbed a client of the other: %q %v", line, err))
		}
		b.c.Close()
		closedB := make(chan struct{})
		go func() { eb.Close(); close(closedB) }()
		select {
		case <-closedB:
		case <-time.After(5 * time.Second):
			fail(-1, []string{"two emulators in one process", "close the second"}, "Close() of the second emulator did not return within 5 s")
		}
		stats["two_instance_checks"]++
	}
	res := map[string]any{"stats": stats, "samples": samples, "failures": failures, "wall_s": time.Since(start).Seconds()}
	if *out != "" {
		data, _ := json.MarshalIndent(res, "", " ")
		os.WriteFile(*out, data, 0o644)
	}
	fmt.Printf("life %v failures=%d wall=%.1fs\n", stats, failures, time.Since(start).Seconds())
	if failures > 0 {
		os.Exit(1)
	}
}

func pick(r *rand.Rand, xs ...string) string { return xs[r.Intn(len(xs))] }
