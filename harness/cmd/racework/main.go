// racework: C16 workload, built with `go build -race -tags verif`. Many goroutines drive the emulator
// concurrently through in-process connections and real sockets: every pair of command classes on
// shared keys, introspection (CLIENT LIST / INFO, INFO, DBSIZE), SELECT, transactions, blocking
// commands with pushers, connects and disconnects, and the periodic saver of a persisting instance.
// The race detector writes its reports to stderr; the caller parses them.
package main

import (
	"context"
	"flag"
	"fmt"
	"math/rand"
	"net"
	"os"
	"strings"
	"sync"
	"sync/atomic"
	"time"

	"github.com/jimsnab/go-lane"
	redisemu "github.com/jimsnab/go-redisemu"

	"verif/harness/internal/gen"
)

func toArgv(a []string) [][]byte {
	out := make([][]byte, len(a))
	for i, s := range a {
		out[i] = []byte(s)
	}
	return out
}

func main() {
	seed := flag.Int64("seed", 1, "seed")
	dur := flag.Duration("duration", 6*time.Second, "how long to run")
	workers := flag.Int("workers", 10, "in-process connections")
	flag.Parse()
	var ops int64
	deadline := time.Now().Add(*dur)
	var wg sync.WaitGroup

	// ---- in-process store shared by many connections
	vs := redisemu.VerifNewStore("")
	fams := []string{"str", "list", "hash", "set", "keys", "bits", "tx", "db", "expiry", "mixed"}
	for w := 0; w < *workers; w++ {
		wg.Add(1)
		go func(w int) {
			defer wg.Done()
			g := gen.New(*seed*977+int64(w), fams[w%len(fams)])
			g.Conns = 1
			g.Malformed = 3
			cl := vs.NewClient()
			r := rand.New(rand.NewSource(*seed + int64(w)))
			for time.Now().Before(deadline) {
				_, argv, _ := g.Next()
				switch argv[0] {
				case "BLPOP", "BRPOP", "blpop", "brpop":
				}
				cl.Dispatch(toArgv(argv))
				atomic.AddInt64(&ops, 1)
				switch r.Intn(40) {
				case 0:
					cl.Dispatch(toArgv([]string{"CLIENT", "LIST"}))
				case 1:
					cl.Dispatch(toArgv([]string{"CLIENT", "INFO"}))
				case 2:
					cl.Dispatch(toArgv([]string{"INFO"}))
				case 3:
					cl.Dispatch(toArgv([]string{"DBSIZE"}))
				case 4:
					cl.Dispatch(toArgv([]string{"SELECT", fmt.Sprint(r.Intn(3))}))
				case 5: // reconnect
					cl.Close()
					cl = vs.NewClient()
				case 6:
					cl.Dispatch(toArgv([]string{"COMMAND", "COUNT"}))
				}
			}
			cl.Dispatch(toArgv([]string{"DISCARD"}))
			cl.Close()
		}(w)
	}
	// every kind of session-state change of a connection, in a tight loop, against introspection of all
	// connections by two others: the paths taken rarely in the mixed workload above (aborted and
	// rejected transactions, UNWATCH, DISCARD, protocol and name changes) are taken thousands of times
	for w := 0; w < 2; w++ {
		wg.Add(2)
		go func(w int) {
			defer wg.Done()
			cl := vs.NewClient()
			defer cl.Close()
			other := vs.NewClient()
			defer other.Close()
			d := func(c *redisemu.VerifClient, a ...string) { c.Dispatch(toArgv(a)); atomic.AddInt64(&ops, 1) }
			k := fmt.Sprintf("sess%d", w)
			for i := 0; time.Now().Before(deadline); i++ {
				switch i % 9 {
				case 0: // executed transaction
					d(cl, "WATCH", k)
					d(cl, "MULTI")
					d(cl, "SET", k, "1")
					d(cl, "EXEC")
				case 1: // rejected while queueing
					d(cl, "WATCH", k)
					d(cl, "MULTI")
					d(cl, "NOSUCHCOMMAND")
					d(cl, "EXEC")
				case 2: // aborted by a watched key
					d(cl, "WATCH", k)
					d(other, "SET", k, "2")
					d(cl, "MULTI")
					d(cl, "GET", k)
					d(cl, "EXEC")
				case 3:
					d(cl, "WATCH", k, "x", "y")
					d(cl, "UNWATCH")
				case 4:
					d(cl, "WATCH", k)
					d(cl, "MULTI")
					d(cl, "DISCARD")
				case 5:
					d(cl, "SELECT", fmt.Sprint(i%3))
				case 6:
					d(cl, "HELLO", fmt.Sprint(2+i%2))
				case 7:
					d(cl, "CLIENT", "SETNAME", fmt.Sprintf("n%d", i%5))
				default:
					d(cl, "MULTI")
					d(cl, "EXEC")
				}
			}
		}(w)
		go func(w int) {
			defer wg.Done()
			cl := vs.NewClient()
			defer cl.Close()
			for i := 0; time.Now().Before(deadline); i++ {
				cl.Dispatch(toArgv([][]string{{"CLIENT", "LIST"}, {"CLIENT", "INFO"}, {"INFO"}, {"DBSIZE"}}[i%4]))
				atomic.AddInt64(&ops, 1)
			}
		}(w)
	}
	// the grammar-driven argument parser is shared by all connections: optional arguments in every order,
	// skipped optional blocks, nested blocks — on several connections at once
	optionForms := [][]string{
		{"HELLO", "3", "SETNAME", "opt-a"}, {"HELLO", "2", "SETNAME", "opt-b"}, {"HELLO", "3"}, {"HELLO"},
		{"SET", "opt:s", "v", "EX", "100", "NX"}, {"SET", "opt:s", "v", "NX", "EX", "100"}, {"SET", "opt:s", "v", "XX", "GET", "KEEPTTL"},
		{"SET", "opt:s", "v", "GET"}, {"GETEX", "opt:s", "PERSIST"}, {"GETEX", "opt:s", "PX", "5000"}, {"EXPIRE", "opt:s", "100", "GT"},
		{"SCAN", "0", "COUNT", "5", "MATCH", "*"}, {"SCAN", "0", "MATCH", "o*", "COUNT", "5", "TYPE", "string"}, {"SCAN", "0", "TYPE", "list"},
		{"RPUSH", "opt:l", "a", "b", "a"}, {"LPOS", "opt:l", "a", "MAXLEN", "5", "RANK", "1"}, {"LPOS", "opt:l", "a", "COUNT", "0"},
		{"LPOS", "opt:l", "a", "RANK", "-1", "COUNT", "2", "MAXLEN", "0"}, {"LMPOP", "1", "opt:l", "LEFT", "COUNT", "1"}, {"LMPOP", "1", "opt:l", "RIGHT"},
		{"SET", "opt:a", "ohmytext"}, {"SET", "opt:b", "mynewtext"}, {"LCS", "opt:a", "opt:b", "IDX", "MINMATCHLEN", "1", "WITHMATCHLEN"},
		{"LCS", "opt:a", "opt:b", "LEN"}, {"LCS", "opt:a", "opt:b", "IDX"}, {"SORT", "opt:l", "LIMIT", "0", "1", "ALPHA", "DESC"}, {"SORT", "opt:l", "ALPHA"},
		{"BITFIELD", "opt:bf", "OVERFLOW", "SAT", "INCRBY", "u4", "0", "1", "GET", "u8", "0"}, {"BITFIELD", "opt:bf", "GET", "u8", "0"},
		{"BITCOUNT", "opt:a", "0", "-1", "BIT"}, {"BITCOUNT", "opt:a"}, {"BITPOS", "opt:a", "1", "0", "-1", "BYTE"}, {"BITPOS", "opt:a", "0"},
		{"SADD", "opt:x", "a", "b"}, {"SADD", "opt:y", "b"}, {"SINTERCARD", "2", "opt:x", "opt:y", "LIMIT", "1"}, {"SINTERCARD", "2", "opt:x", "opt:y"},
		{"COPY", "opt:a", "opt:c", "REPLACE"}, {"COPY", "opt:a", "opt:c", "DB", "0", "REPLACE"}, {"HSET", "opt:h", "f", "1"}, {"HRANDFIELD", "opt:h", "2", "WITHVALUES"},
		{"HRANDFIELD", "opt:h"}, {"CLIENT", "KILL", "ID", "0", "SKIPME", "yes"}, {"CLIENT", "LIST", "TYPE", "normal"}, {"CLIENT", "NO-EVICT", "off"},
	}
	for w := 0; w < 3; w++ {
		wg.Add(1)
		go func(w int) {
			defer wg.Done()
			cl := vs.NewClient()
			defer cl.Close()
			for i := w * 7; time.Now().Before(deadline); i++ {
				cl.Dispatch(toArgv(optionForms[i%len(optionForms)]))
				atomic.AddInt64(&ops, 1)
			}
		}(w)
	}
	// commands that take no data store lock put nothing between two parses: the same few forms on four
	// connections, back to back
	sessionForms := [][]string{
		{"HELLO", "3", "SETNAME", "opt-a"}, {"HELLO", "2", "SETNAME", "opt-b"}, {"HELLO", "3"}, {"CLIENT", "KILL", "ID", "0", "SKIPME", "yes"},
		{"CLIENT", "KILL", "LADDR", "127.0.0.1:1", "TYPE", "pubsub"}, {"CLIENT", "SETNAME", "x"}, {"CLIENT", "NO-EVICT", "on"}, {"PING", "m"}, {"ECHO", "m"},
	}
	for w := 0; w < 4; w++ {
		wg.Add(1)
		go func(w int) {
			defer wg.Done()
			cl := vs.NewClient()
			defer cl.Close()
			for i := w; time.Now().Before(deadline); i++ {
				cl.Dispatch(toArgv(sessionForms[i%len(sessionForms)]))
				atomic.AddInt64(&ops, 1)
			}
		}(w)
	}
	// readers that scan the stored bytes of a string (BITCOUNT, BITPOS, GETBIT, GETRANGE, STRLEN, LCS) against
	// writers that keep its length (SETRANGE inside the value, SETBIT, BITFIELD SET, APPEND of nothing): stored
	// bytes are never changed in place. 16 KiB: long enough for the two to overlap, short enough for the race
	// detector to keep its history.
	{
		init := vs.NewClient()
		init.Dispatch(toArgv([]string{"SET", "rw:bytes", strings.Repeat("0", 16384)}))
		init.Close()
		for w := 0; w < 2; w++ {
			wg.Add(2)
			go func(w int) {
				defer wg.Done()
				cl := vs.NewClient()
				defer cl.Close()
				fills := []string{strings.Repeat("7", 16384), strings.Repeat("0", 16384)}
				for i := 0; time.Now().Before(deadline); i++ {
					switch i % 5 {
					case 0, 1:
						cl.Dispatch(toArgv([]string{"SETRANGE", "rw:bytes", "0", fills[i%2]}))
					case 2:
						cl.Dispatch(toArgv([]string{"SETRANGE", "rw:bytes", "100", fills[i%2][:8000]}))
					case 3:
						cl.Dispatch(toArgv([]string{"SETBIT", "rw:bytes", fmt.Sprint(8 * (i % 16000)), "1"}))
					default:
						cl.Dispatch(toArgv([]string{"BITFIELD", "rw:bytes", "SET", "u8", fmt.Sprint(8 * (i % 16000)), "55"}))
					}
					atomic.AddInt64(&ops, 1)
				}
			}(w)
			go func(w int) {
				defer wg.Done()
				cl := vs.NewClient()
				defer cl.Close()
				reads := [][]string{{"BITCOUNT", "rw:bytes"}, {"BITPOS", "rw:bytes", "1"}, {"GETBIT", "rw:bytes", "77777"}, {"GETRANGE", "rw:bytes", "0", "-1"},
					{"STRLEN", "rw:bytes"}, {"BITCOUNT", "rw:bytes", "5", "-5", "BIT"}, {"GET", "rw:bytes"}, {"BITFIELD_RO", "rw:bytes", "GET", "u16", "4000"}}
				for i := w; time.Now().Before(deadline); i++ {
					cl.Dispatch(toArgv(reads[i%len(reads)]))
					atomic.AddInt64(&ops, 1)
				}
			}(w)
		}
	}
	// blocked consumers and their pushers, plus CLIENT UNBLOCK
	for w := 0; w < 3; w++ {
		wg.Add(2)
		consumer := vs.NewClient()
		go func(w int) {
			defer wg.Done()
			for time.Now().Before(deadline) {
				consumer.Dispatch(toArgv([]string{"BLPOP", fmt.Sprintf("bq%d", w), "bqx", "0.05"}))
				atomic.AddInt64(&ops, 1)
			}
		}(w)
		go func(w int) {
			defer wg.Done()
			cl := vs.NewClient()
			r := rand.New(rand.NewSource(*seed + 100 + int64(w)))
			for time.Now().Before(deadline) {
				switch r.Intn(4) {
				case 0:
					cl.Dispatch(toArgv([]string{"RPUSH", fmt.Sprintf("bq%d", w), "x", "y"}))
				case 1:
					cl.Dispatch(toArgv([]string{"CLIENT", "UNBLOCK", fmt.Sprint(consumer.ID())}))
				case 2:
					cl.Dispatch(toArgv([]string{"LPOP", fmt.Sprintf("bq%d", w)}))
				default:
					time.Sleep(time.Millisecond)
				}
				atomic.AddInt64(&ops, 1)
			}
			cl.Close()
		}(w)
	}

	// ---- a real emulator with a persist path (periodic saver) and socket clients
	dir, _ := os.MkdirTemp("", "verif-race-")
	defer os.RemoveAll(dir)
	l, _ := net.Listen("tcp", "127.0.0.1:0")
	port := l.Addr().(*net.TCPAddr).Port
	l.Close()
	emu, _ := redisemu.NewEmulator(lane.NewNullLane(context.Background()), port, "127.0.0.1", dir+"/snap", nil)
	emu.Start()
	for w := 0; w < 4; w++ {
		wg.Add(1)
		go func(w int) {
			defer wg.Done()
			g := gen.New(*seed*31+int64(w), fams[(w+3)%len(fams)])
			g.Conns = 1
			r := rand.New(rand.NewSource(*seed + 200 + int64(w)))
			for time.Now().Before(deadline) {
				c, err := net.DialTimeout("tcp", fmt.Sprintf("127.0.0.1:%d", port), time.Second)
				if err != nil {
					time.Sleep(5 * time.Millisecond)
					continue
				}
				buf := make([]byte, 65536)
				for i := 0; i < 20+r.Intn(200) && time.Now().Before(deadline); i++ {
					_, argv, _ := g.Next()
					s := fmt.Sprintf("*%d\r\n", len(argv))
					for _, a := range argv {
						s += fmt.Sprintf("$%d\r\n%s\r\n", len(a), a)
					}
					c.SetDeadline(time.Now().Add(300 * time.Millisecond))
					c.Write([]byte(s))
					c.Read(buf)
					atomic.AddInt64(&ops, 1)
				}
				c.Close()
			}
		}(w)
	}
	wg.Wait()
	emu.Close()
	fmt.Printf("racework ops=%d\n", atomic.LoadInt64(&ops))
}
