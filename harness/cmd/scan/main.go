// scan: C17 (and the table behind C04/C05/C06).
// Part A — exact-layout correspondence: random histories of store / remove / scan on one
//
//	redisDict (hook exports) against the Lean `Dict` model instantiated with the Lean SipHash:
//	table size, item count, the bucket of every key and every scan result are compared step by step.
//
// Part B — the property itself on SCAN / HSCAN / SSCAN: full iterations with random COUNT / MATCH /
//
//	TYPE while other elements are added and removed (tables growing and shrinking) between calls:
//	every element present throughout is returned, nothing never present is returned, and a quiet
//	iteration terminates within the number of buckets.
package main

import (
	"encoding/json"
	"flag"
	"fmt"
	"math/rand"
	"os"
	"sort"
	"strconv"
	"strings"
	"time"

	redisemu "github.com/jimsnab/go-redisemu"

	"verif/harness/internal/drv"
)

type step struct {
	Op  string `json:"op"`
	Arg string `json:"arg"`
}

func layout(vd *redisemu.VerifDict) string {
	keys, used := vd.Buckets()
	parts := []string{fmt.Sprintf("size=%d count=%d", len(keys), vd.Count())}
	for i, k := range keys {
		if used[i] {
			parts = append(parts, fmt.Sprintf("%d:%s", i, drv.Hex([]byte(k))))
		}
	}
	return strings.Join(parts, " ")
}

func partA(d *drv.Driver, r *rand.Rand, histories, steps int, stats map[string]int) (fail string, trace []step) {
	for h := 0; h < histories; h++ {
		vd := redisemu.VerifNewDict()
		d.MustAsk("DN")
		trace = nil
		// two of three histories stay small (tables of 32…128 buckets that shrink back to 16: every
		// boundary of the halving test is hit often); the third one goes through many doublings
		pool := 12 + r.Intn(40)
		phase := 40 + r.Intn(60)
		if h%3 == 2 {
			pool = 20 + r.Intn(140)
			phase = 150
		}
		growPhase := true
		for s := 0; s < steps; s++ {
			if s%phase == phase-1 {
				growPhase = !growPhase
			}
			key := fmt.Sprintf("e%d", r.Intn(pool))
			if r.Intn(25) == 0 {
				key = []string{"", "\x00", "é", "long-long-long-long-key-" + strconv.Itoa(r.Intn(9))}[r.Intn(4)]
			}
			n := r.Intn(10)
			var op string
			switch {
			case n < 2:
				op = "scan"
			case (n < 8) == growPhase:
				op = "store"
			default:
				op = "remove"
			}
			switch op {
			case "store":
				trace = append(trace, step{"store", key})
				vd.Store(key)
				ans := strings.TrimSpace(d.MustAsk("DS " + drv.Hex([]byte(key))))
				stats["store"]++
				if l := layout(vd); ans != l {
					return fmt.Sprintf("after store %q: model [%.300s] implementation [%.300s]", key, ans, l), trace
				}
			case "remove":
				trace = append(trace, step{"remove", key})
				ok := vd.Remove(key)
				ans := strings.TrimSpace(d.MustAsk("DR " + drv.Hex([]byte(key))))
				stats["remove"]++
				want := "0 "
				if ok {
					want = "1 "
				}
				if l := want + layout(vd); ans != l {
					return fmt.Sprintf("after remove %q: model [%.300s] implementation [%.300s]", key, ans, l), trace
				}
			case "scan":
				// a full iteration with a random COUNT, comparing every call
				count := 1 + r.Intn(12)
				cursor := uint32(0)
				if r.Intn(4) == 0 {
					cursor = uint32(r.Intn(1 << 20)) // any cursor value, also stale ones
				}
				for calls := 0; calls < 5000; calls++ {
					trace = append(trace, step{"scan", fmt.Sprintf("%d %d", cursor, count)})
					next, keys := vd.Scan(cursor, count)
					hx := make([]string, len(keys))
					for i, k := range keys {
						hx[i] = drv.Hex([]byte(k))
					}
					got := strings.TrimSpace(next + " " + strings.Join(hx, " "))
					ans := strings.TrimSpace(d.MustAsk(fmt.Sprintf("DC %d %d", cursor, count)))
					stats["scan_calls"]++
					if ans != got {
						return fmt.Sprintf("scan cursor=%d count=%d: model [%.300s] implementation [%.300s]", cursor, count, ans, got), trace
					}
					n64, _ := strconv.ParseUint(next, 10, 32)
					cursor = uint32(n64)
					if cursor == 0 {
						break
					}
				}
			}
			_, used := vd.Buckets()
			if len(used) > stats["max_table"] {
				stats["max_table"] = len(used)
			}
		}
		stats["histories"]++
	}
	return "", nil
}

// rev reverses the low k bits
func revBits(k uint, x uint32) uint32 {
	var r uint32
	for i := uint(0); i < k; i++ {
		r = r<<1 | (x>>i)&1
	}
	return r
}

// partPattern: directed histories around the halving test. For a table of S = 32 or 64 buckets a
// chosen occupancy pattern (biased to adjacent pairs, including the first and the last pair) is
// put in place, then exactly enough other keys are stored and removed to make the implementation
// evaluate "can the table be halved" with only the pattern left.
func partPattern(d *drv.Driver, r *rand.Rand, rounds int, stats map[string]int) (fail string, trace []step) {
	byBucket := map[uint]map[uint32][]string{5: {}, 6: {}}
	for i := 0; i < 6000; i++ {
		key := fmt.Sprintf("p%d", i)
		h := uint32(redisemu.VerifSipHash(key))
		for _, k := range []uint{5, 6} {
			b := revBits(k, h&(1<<k-1))
			byBucket[k][b] = append(byBucket[k][b], key)
		}
	}
	do := func(vd *redisemu.VerifDict, op, key string) string {
		trace = append(trace, step{op, key})
		if op == "store" {
			vd.Store(key)
			ans := strings.TrimSpace(d.MustAsk("DS " + drv.Hex([]byte(key))))
			stats["store"]++
			if l := layout(vd); ans != l {
				return fmt.Sprintf("after store %q: model [%.300s] implementation [%.300s]", key, ans, l)
			}
			return ""
		}
		ok := vd.Remove(key)
		ans := strings.TrimSpace(d.MustAsk("DR " + drv.Hex([]byte(key))))
		stats["remove"]++
		want := "0 "
		if ok {
			want = "1 "
		}
		if l := want + layout(vd); ans != l {
			return fmt.Sprintf("after remove %q: model [%.300s] implementation [%.300s]", key, ans, l)
		}
		return ""
	}
	for round := 0; round < rounds; round++ {
		k := uint(5 + round%2)
		size := uint32(1) << k
		vd := redisemu.VerifNewDict()
		d.MustAsk("DN")
		trace = nil
		// two keys sharing a bucket at size/2 but not at size: forces growth to exactly `size`
		b0 := uint32(r.Intn(int(size / 2)))
		a, b := byBucket[k][2*b0][0], byBucket[k][2*b0+1][0]
		for _, key := range []string{a, b} {
			if f := do(vd, "store", key); f != "" {
				return f, trace
			}
		}
		for _, key := range []string{a, b} {
			if f := do(vd, "remove", key); f != "" {
				return f, trace
			}
		}
		// pattern
		pat := map[uint32]bool{}
		switch r.Intn(4) {
		case 0: // one adjacent pair, any position (first and last included)
			j := uint32(r.Intn(int(size / 2)))
			if r.Intn(3) == 0 {
				j = []uint32{0, size/2 - 1}[r.Intn(2)]
			}
			pat[2*j], pat[2*j+1] = true, true
		case 1: // no pair: odd/even neighbours across pair boundaries
			j := uint32(r.Intn(int(size/2 - 1)))
			pat[2*j+1], pat[2*j+2] = true, true
		case 2: // a few random buckets
			for i := 0; i < 1+r.Intn(4); i++ {
				pat[uint32(r.Intn(int(size)))] = true
			}
		default: // empty pattern
		}
		for bkt := range pat {
			if f := do(vd, "store", byBucket[k][bkt][1]); f != "" {
				return f, trace
			}
		}
		// temporaries: size/2 - 1 of them (two removals already happened): the last removal makes the
		// removal counter exceed size/2
		var temps []string
		for bkt := uint32(0); bkt < size && len(temps) < int(size/2)-1; bkt++ {
			if !pat[bkt] {
				temps = append(temps, byBucket[k][bkt][2])
			}
		}
		for _, key := range temps {
			if f := do(vd, "store", key); f != "" {
				return f, trace
			}
		}
		for _, key := range temps {
			if f := do(vd, "remove", key); f != "" {
				return f, trace
			}
		}
		stats["pattern_rounds"]++
	}
	return "", nil
}

type coll struct {
	kind    string // keys | hash | set
	key     string
	present map[string]bool
}

func partB(r *rand.Rand, iterations int, stats map[string]int) (fail string, trace []string) {
	vs := redisemu.VerifNewStore("")
	cl := vs.NewClient()
	defer cl.Close()
	run := func(args ...string) []byte {
		argv := make([][]byte, len(args))
		for i, a := range args {
			argv[i] = []byte(a)
		}
		trace = append(trace, strings.Join(args, " "))
		if len(trace) > 4000 {
			trace = trace[len(trace)-4000:]
		}
		reply, p := cl.Dispatch(argv)
		if p != "" {
			return []byte("PANIC " + p)
		}
		return reply
	}
	// a tiny RESP2 reader for [cursor, [elements…]]
	parse := func(b []byte) (cursor string, elems []string, ok bool) {
		lines := strings.Split(string(b), "\r\n")
		if len(lines) < 4 || lines[0] != "*2" {
			return "", nil, false
		}
		cursor = lines[2]
		n, err := strconv.Atoi(strings.TrimPrefix(lines[3], "*"))
		if err != nil {
			return "", nil, false
		}
		i := 4
		for e := 0; e < n; e++ {
			if i+1 >= len(lines) {
				return "", nil, false
			}
			elems = append(elems, lines[i+1])
			i += 2
		}
		return cursor, elems, true
	}
	for it := 0; it < iterations; it++ {
		c := &coll{kind: []string{"keys", "hash", "set"}[it%3], key: fmt.Sprintf("coll%d", it), present: map[string]bool{}}
		run("FLUSHALL")
		add := func(e string) {
			switch c.kind {
			case "keys":
				run("SET", e, "1")
			case "hash":
				run("HSET", c.key, e, "v")
			case "set":
				run("SADD", c.key, e)
			}
			c.present[e] = true
		}
		del := func(e string) {
			switch c.kind {
			case "keys":
				run("DEL", e)
			case "hash":
				run("HDEL", c.key, e)
			case "set":
				run("SREM", c.key, e)
			}
			delete(c.present, e)
		}
		// stable elements stay for the whole iteration; volatile ones come and go
		nStable := 1 + r.Intn(120)
		if it%5 == 3 && nStable < 40 {
			nStable += 40 // drain mode (below) needs an iteration of several calls
		}
		stable := map[string]bool{}
		for i := 0; i < nStable; i++ {
			e := fmt.Sprintf("s%d", i)
			add(e)
			stable[e] = true
		}
		// where the table came from must not matter: a collection produced by a STORE form or by COPY
		// (same members, a table built by another code path) is iterated like one built element by element
		switch c.kind {
		case "set":
			switch r.Intn(6) {
			case 0:
				run("SUNIONSTORE", c.key, c.key)
			case 1:
				run("SINTERSTORE", c.key, c.key)
			case 2:
				run("SDIFFSTORE", c.key, c.key, "no-such-key")
			case 3:
				run("COPY", c.key, "tmp-copy")
				run("RENAME", "tmp-copy", c.key)
			}
			stats["derived_tables"]++
		case "hash":
			if r.Intn(3) == 0 {
				run("COPY", c.key, "tmp-copy")
				run("RENAME", "tmp-copy", c.key)
				stats["derived_tables"]++
			}
		}
		everPresent := map[string]bool{}
		for e := range c.present {
			everPresent[e] = true
		}
		volatilePool := 10 + r.Intn(600)
		quiet := it%4 == 0 // no mutation: check the termination bound
		// drain mode: some calls into the iteration every element is removed (nothing is stable) and
		// nothing changes afterwards: the iteration must still come to its end
		drain := it%5 == 3
		drainAt := 2 + r.Intn(4)
		callsAfterDrain := -1
		if drain {
			quiet = false
			stable = map[string]bool{}
		}
		pattern := ""
		if r.Intn(3) == 0 {
			// with and without metacharacters, and with the backslash escape as the only special character
			pattern = []string{"s*", "*1*", "s?", "v*", "*", "s\\1", "\\s\\2", "s1", "s[0-3]", "\\s1*"}[r.Intn(10)]
		}
		seen := map[string]bool{}
		cursor := "0"
		calls := 0
		for {
			calls++
			if calls > 200000 {
				return fmt.Sprintf("%s iteration did not terminate within 200000 calls", c.kind), trace
			}
			count := strconv.Itoa(1 + r.Intn(20))
			if drain {
				count = strconv.Itoa(1 + r.Intn(3)) // small batches: the iteration is still under way when everything is removed
			}
			var reply []byte
			args := []string{}
			switch c.kind {
			case "keys":
				args = []string{"SCAN", cursor, "COUNT", count}
			case "hash":
				args = []string{"HSCAN", c.key, cursor, "COUNT", count}
			case "set":
				args = []string{"SSCAN", c.key, cursor, "COUNT", count}
			}
			if pattern != "" {
				args = append(args, "MATCH", pattern)
			}
			if c.kind == "keys" && r.Intn(4) == 0 {
				args = append(args, "TYPE", "string")
			}
			reply = run(args...)
			next, elems, ok := parse(reply)
			if !ok {
				return fmt.Sprintf("%s: unexpected reply %q", strings.Join(args, " "), reply), trace
			}
			stats["scan_calls_e2e"]++
			if c.kind == "hash" {
				// field, value pairs
				var fs []string
				for i := 0; i+1 < len(elems); i += 2 {
					fs = append(fs, elems[i])
				}
				elems = fs
			}
			for _, e := range elems {
				if !everPresent[e] {
					return fmt.Sprintf("%s returned %q which was never present", strings.Join(args, " "), e), trace
				}
				seen[e] = true
			}
			cursor = next
			if cursor == "0" {
				break
			}
			if drain {
				if callsAfterDrain >= 0 {
					callsAfterDrain++
					if callsAfterDrain > 200 {
						return fmt.Sprintf("%s: every element was removed during the iteration and nothing changed afterwards, yet %d further calls did not end it (cursor %s)", c.kind, callsAfterDrain, cursor), trace
					}
				} else if calls >= drainAt {
					for e := range c.present {
						del(e)
					}
					callsAfterDrain = 0
					stats["drained_iterations"]++
				}
				continue
			}
			if !quiet {
				for m := 0; m < r.Intn(40); m++ {
					e := fmt.Sprintf("v%d", r.Intn(volatilePool))
					if c.present[e] {
						del(e)
					} else {
						add(e)
						everPresent[e] = true
					}
				}
				if r.Intn(10) == 0 { // a burst: forces doublings or halvings
					grow := r.Intn(2) == 0
					for m := 0; m < 300; m++ {
						e := fmt.Sprintf("v%d", r.Intn(volatilePool))
						if grow && !c.present[e] {
							add(e)
							everPresent[e] = true
						} else if !grow && c.present[e] {
							del(e)
						}
					}
				}
			}
		}
		globMatch := func(e string) bool {
			if pattern == "" {
				return true
			}
			return redisemu.VerifGlob(pattern, e)
		}
		var missing []string
		for e := range stable {
			if globMatch(e) && !seen[e] {
				missing = append(missing, e)
			}
		}
		if len(missing) > 0 {
			sort.Strings(missing)
			return fmt.Sprintf("%s full iteration (pattern %q, %d calls) skipped %d elements present throughout, e.g. %v", c.kind, pattern, calls, len(missing), missing[:1]), trace
		}
		if quiet && calls > nStable+2 {
			return fmt.Sprintf("%s quiet iteration over %d elements needed %d calls", c.kind, nStable, calls), trace
		}
		stats["iterations"]++
		stats["iter_"+c.kind]++
	}
	return "", nil
}

// Part C — filters on a collection that does not change: a full iteration with a selective MATCH / TYPE
// and a small COUNT returns exactly the matching elements (C17: "MATCH, TYPE and COUNT only filter or
// batch the result and never cause a stable matching element to be skipped"). The collections are large
// against COUNT and almost everything is filtered out, so a call has to walk far to fill its batch; the
// patterns are literal names, names with the backslash escape as the only special character, names that
// contain glob metacharacters themselves, classes and wildcards.
func partFilter(r *rand.Rand, rounds int, stats map[string]int) (fail string, trace []string) {
	vs := redisemu.VerifNewStore("")
	cl := vs.NewClient()
	defer cl.Close()
	run := func(args ...string) []byte {
		argv := make([][]byte, len(args))
		for i, a := range args {
			argv[i] = []byte(a)
		}
		trace = append(trace, strings.Join(args, " "))
		if len(trace) > 2000 {
			trace = trace[len(trace)-2000:]
		}
		reply, p := cl.Dispatch(argv)
		if p != "" {
			return []byte("PANIC " + p)
		}
		return reply
	}
	parse := func(b []byte) (cursor string, elems []string, ok bool) {
		lines := strings.Split(string(b), "\r\n")
		if len(lines) < 4 || lines[0] != "*2" {
			return "", nil, false
		}
		cursor = lines[2]
		n, err := strconv.Atoi(strings.TrimPrefix(lines[3], "*"))
		if err != nil {
			return "", nil, false
		}
		i := 4
		for e := 0; e < n; e++ {
			if i+1 >= len(lines) {
				return "", nil, false
			}
			elems = append(elems, lines[i+1])
			i += 2
		}
		return cursor, elems, true
	}
	for round := 0; round < rounds; round++ {
		run("FLUSHALL")
		n := 40 + r.Intn(160)
		var names []string
		for i := 0; i < n; i++ {
			names = append(names, fmt.Sprintf("e%d", i))
		}
		names = append(names, "ab", "a\\b", "a*b", "a?b", "user:1", "user\\:1", "[x]", "plain")
		for _, e := range names {
			run("SET", e, "v")       // keys of database 0 (type string)
			run("HSET", "h", e, "v") // fields
			run("SADD", "s", e)      // members
		}
		run("RPUSH", "alist", "x") // a key of another type, for TYPE
		keysAll := append(append([]string{}, names...), "h", "s", "alist")
		pick := func() string { return names[r.Intn(len(names))] }
		esc := func(e string) string { // every character escaped: matches exactly e
			var b strings.Builder
			for i := 0; i < len(e); i++ {
				b.WriteByte('\\')
				b.WriteByte(e[i])
			}
			return b.String()
		}
		var pats []string
		for i := 0; i < 4; i++ {
			e := pick()
			pats = append(pats, e, esc(e))
		}
		pats = append(pats, "a\\b", "a\\\\b", "a\\*b", "a[*]b", "user\\:1", "user\\\\:1", "[[]x]", "e1?", "e[1-2]", "*9", "nomatch", "e1\\0")
		for _, pat := range pats {
			for _, kind := range []string{"keys", "hash", "set"} {
				count := strconv.Itoa(1 + r.Intn(3))
				typeFilter := kind == "keys" && r.Intn(3) == 0
				seen := map[string]bool{}
				cursor, calls := "0", 0
				for {
					calls++
					if calls > 100000 {
						return fmt.Sprintf("%s iteration with MATCH %q COUNT %s did not end within 100000 calls", kind, pat, count), trace
					}
					var args []string
					switch kind {
					case "keys":
						args = []string{"SCAN", cursor, "MATCH", pat, "COUNT", count}
						if typeFilter {
							args = append(args, "TYPE", "string")
						}
					case "hash":
						args = []string{"HSCAN", "h", cursor, "MATCH", pat, "COUNT", count}
					case "set":
						args = []string{"SSCAN", "s", cursor, "COUNT", count, "MATCH", pat}
					}
					next, elems, ok := parse(run(args...))
					if !ok {
						return fmt.Sprintf("%s: unexpected reply", strings.Join(args, " ")), trace
					}
					stats["filter_calls"]++
					if kind == "hash" {
						var fs []string
						for i := 0; i+1 < len(elems); i += 2 {
							fs = append(fs, elems[i])
						}
						elems = fs
					}
					for _, e := range elems {
						seen[e] = true
					}
					cursor = next
					if cursor == "0" {
						break
					}
				}
				universe := names
				if kind == "keys" {
					universe = keysAll
				}
				want := map[string]bool{}
				for _, e := range universe {
					if redisemu.VerifGlob(pat, e) && !(typeFilter && (e == "h" || e == "s" || e == "alist")) {
						want[e] = true
					}
				}
				for e := range want {
					if !seen[e] {
						return fmt.Sprintf("%s full iteration with MATCH %q COUNT %s (%d elements, nothing changing) never returned %q", kind, pat, count, len(universe), e), trace
					}
				}
				for e := range seen {
					if !want[e] {
						return fmt.Sprintf("%s full iteration with MATCH %q returned %q, which does not match", kind, pat, e), trace
					}
				}
				stats["filter_iterations"]++
			}
		}
	}
	return "", nil
}

// Part D — expired keys in the table while SCAN walks it. Whatever SCAN does about an expired key it meets
// (skip it, reclaim it), a key that is alive from the first call to the last is returned. The layouts are
// chosen by hash: a live key and a key that is about to expire in neighbouring buckets of a 32-bucket table,
// and a churn key set and deleted 0..24 times before, so that one more removal is the one that lets the table
// think about halving.
func partExpired(r *rand.Rand, rounds int, stats map[string]int) (fail string, trace []string) {
	byBucket := map[uint32][]string{}
	for i := 0; i < 4000; i++ {
		key := fmt.Sprintf("x%d", i)
		b := revBits(5, uint32(redisemu.VerifSipHash(key))&31)
		byBucket[b] = append(byBucket[b], key)
	}
	for round := 0; round < rounds; round++ {
		for churn := 0; churn <= 24; churn += 1 + r.Intn(3) {
			vs := redisemu.VerifNewStore("")
			cl := vs.NewClient()
			run := func(args ...string) []byte {
				argv := make([][]byte, len(args))
				for i, a := range args {
					argv[i] = []byte(a)
				}
				trace = append(trace, strings.Join(args, " "))
				if len(trace) > 400 {
					trace = trace[len(trace)-400:]
				}
				reply, _ := cl.Dispatch(argv)
				return reply
			}
			pair := uint32(r.Intn(16))
			dying, live := byBucket[2*pair][0], byBucket[2*pair+1][0]
			if r.Intn(2) == 0 {
				dying, live = byBucket[2*pair+1][0], byBucket[2*pair][0]
			}
			churnKey := byBucket[(2*pair+7)%32][1]
			run("SET", live, "stays")
			run("SET", dying, "goes", "PX", "12")
			for i := 0; i < churn; i++ {
				run("SET", churnKey, "x")
				run("DEL", churnKey)
			}
			time.Sleep(20 * time.Millisecond)
			opts := [][]string{{}, {"COUNT", "1"}, {"TYPE", "string"}, {"MATCH", "x*", "COUNT", "100"}}[r.Intn(4)]
			seen := map[string]bool{}
			cursor := "0"
			for calls := 0; calls < 10000; calls++ {
				reply := string(run(append([]string{"SCAN", cursor}, opts...)...))
				lines := strings.Split(reply, "\r\n")
				if len(lines) < 4 || lines[0] != "*2" {
					cl.Close()
					return fmt.Sprintf("SCAN %s: unexpected reply %.80q", cursor, reply), trace
				}
				cursor = lines[2]
				for i := 5; i < len(lines); i += 2 {
					seen[lines[i]] = true
				}
				if cursor == "0" {
					break
				}
			}
			stats["expired_in_scan_iterations"]++
			if !seen[live] {
				cl.Close()
				return fmt.Sprintf("a full SCAN iteration (%v) never returned %q, which was alive all along (a neighbour in the table had expired; %d removals before)", opts, live, churn), trace
			}
			if seen[dying] {
				cl.Close()
				return fmt.Sprintf("a full SCAN iteration returned the expired key %q", dying), trace
			}
			cl.Close()
		}
	}
	return "", nil
}

func main() {
	seed := flag.Int64("seed", 1, "seed")
	histories := flag.Int("histories", 6, "dict histories (part A)")
	steps := flag.Int("steps", 600, "steps per history")
	iterations := flag.Int("iterations", 30, "full iterations (part B)")
	patterns := flag.Int("patterns", 60, "directed halving rounds")
	prop := flag.String("property", "C17", "property")
	out := flag.String("out", "", "stats json")
	replayDir := flag.String("replays", "/verif/replays", "replay dir")
	flag.Parse()
	start := time.Now()
	d, err := drv.Start()
	if err != nil {
		panic(err)
	}
	defer d.Close()
	stats := map[string]int{}
	r := rand.New(rand.NewSource(*seed))
	failures := 0
	report := func(part, detail string, trace any) {
		failures++
		os.MkdirAll(*replayDir, 0o755)
		path := fmt.Sprintf("%s/%s-scan-%s-%d.json", *replayDir, *prop, part, *seed)
		data, _ := json.MarshalIndent(map[string]any{"property": *prop, "part": part, "seed": *seed, "detail": detail, "trace": trace}, "", " ")
		os.WriteFile(path, data, 0o644)
		fmt.Printf("SCAN-FAIL property=%s replay=%s detail=%s\n", *prop, path, detail)
	}
	if f, tr := partA(d, r, *histories, *steps, stats); f != "" {
		report("dict", f, tr)
	}
	if failures == 0 {
		if f, tr := partPattern(d, r, *patterns, stats); f != "" {
			report("halving", f, tr)
		}
	}
	if failures == 0 {
		if f, tr := partB(r, *iterations, stats); f != "" {
			report("iteration", f, tr)
		}
	}
	if failures == 0 {
		rounds := 1 + *iterations/40
		if f, tr := partFilter(r, rounds, stats); f != "" {
			report("filter", f, tr)
		}
	}
	if failures == 0 && *prop != "C04" && *prop != "C05" {
		if f, tr := partExpired(r, 1+*iterations/45, stats); f != "" {
			report("expired", f, tr)
		}
	}
	res := map[string]any{"stats": stats, "failures": failures, "wall_s": time.Since(start).Seconds(),
		"samples": []string{"store e17 / remove e5 / full scan with COUNT 3 compared bucket by bucket", "HSCAN coll1 0 COUNT 7 with HSET/HDEL bursts between calls"}}
	if *out != "" {
		data, _ := json.MarshalIndent(res, "", " ")
		os.WriteFile(*out, data, 0o644)
	}
	fmt.Printf("scan %v failures=%d wall=%.1fs\n", stats, failures, time.Since(start).Seconds())
	if failures > 0 {
		os.Exit(1)
	}
}
