// probe: run commands against the in-process emulator; one command per line,
// fields are Go-unquoted when they start with a double quote. "@2 GET k" runs on client 2.
package main

import (
	"bufio"
	"fmt"
	"os"
	"strconv"
	"strings"

	redisemu "github.com/jimsnab/go-redisemu"
)

func fields(line string) []string {
	var out []string
	i := 0
	for i < len(line) {
		for i < len(line) && line[i] == ' ' {
			i++
		}
		if i >= len(line) {
			break
		}
		if line[i] == '"' {
			j := i + 1
			for j < len(line) && (line[j] != '"' || line[j-1] == '\\') {
				j++
			}
			s, err := strconv.Unquote(line[i : j+1])
			if err != nil {
				s = line[i+1 : j]
			}
			out = append(out, s)
			i = j + 1
		} else {
			j := i
			for j < len(line) && line[j] != ' ' {
				j++
			}
			out = append(out, line[i:j])
			i = j
		}
	}
	return out
}

func main() {
	vs := redisemu.VerifNewStore("")
	clients := map[string]*redisemu.VerifClient{}
	sc := bufio.NewScanner(os.Stdin)
	sc.Buffer(make([]byte, 1<<20), 1<<20)
	for sc.Scan() {
		line := strings.TrimSpace(sc.Text())
		if line == "" || line[0] == '#' {
			continue
		}
		if line == "DUMP" {
			fmt.Print(vs.Dump())
			continue
		}
		f := fields(line)
		who := "1"
		if strings.HasPrefix(f[0], "@") {
			who = f[0][1:]
			f = f[1:]
		}
		c := clients[who]
		if c == nil {
			c = vs.NewClient()
			clients[who] = c
		}
		argv := make([][]byte, len(f))
		for i, s := range f {
			argv[i] = []byte(s)
		}
		reply, p := c.Dispatch(argv)
		if p != "" {
			fmt.Printf("%s => PANIC %s\n", line, p)
		} else {
			fmt.Printf("%s => %q\n", line, reply)
		}
	}
}
