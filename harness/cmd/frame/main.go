// frame: C01 over real TCP sockets. The same pipeline of commands is sent to two fresh emulators:
// to A in a single write, to B cut into TCP writes at generated split points (every byte, inside
// CR LF, inside a bulk larger than the server's 8 KiB read buffer, with small delays). Both reply
// streams must consist of exactly one well-formed RESP value per command and be byte-identical.
// The Lean driver is asked for every command first: commands the model predicts to panic are not
// sent (an unrecovered panic ends the process).
package main

import (
	"bufio"
	"bytes"
	"context"
	"encoding/hex"
	"encoding/json"
	"flag"
	"fmt"
	"math/rand"
	"net"
	"os"
	"strings"
	"time"

	"github.com/jimsnab/go-lane"
	redisemu "github.com/jimsnab/go-redisemu"

	"verif/harness/internal/drv"
	"verif/harness/internal/gen"
	"verif/harness/internal/respio"
)

func freePort() int {
	l, err := net.Listen("tcp", "127.0.0.1:0")
	if err != nil {
		panic(err)
	}
	p := l.Addr().(*net.TCPAddr).Port
	l.Close()
	return p
}

func startEmu() (*redisemu.RedisEmu, int) {
	port := freePort()
	emu, err := redisemu.NewEmulator(lane.NewNullLane(context.Background()), port, "127.0.0.1", "", nil)
	if err != nil {
		panic(err)
	}
	emu.Start()
	return emu, port
}

func dial(port int) net.Conn {
	for i := 0; i < 50; i++ {
		c, err := net.Dial("tcp", fmt.Sprintf("127.0.0.1:%d", port))
		if err == nil {
			return c
		}
		time.Sleep(10 * time.Millisecond)
	}
	panic("cannot connect")
}

var excluded = map[string]bool{
	"scan": true, "hscan": true, "sscan": true,
	"ttl": true, "pttl": true, "expiretime": true, "pexpiretime": true, "hello": true, "client": true,
	"blpop": true, "brpop": true, "blmove": true, "brpoplpush": true, "blmpop": true, "multi": true, "exec": true,
	"discard": true, "watch": true, "unwatch": true, "select": true, "flushdb": true, "flushall": true,
	"expire": true, "pexpire": true, "expireat": true, "pexpireat": true, "setex": true, "psetex": true, "getex": true,
	"incrbyfloat": true, "hincrbyfloat": true, "sort": true, "lcs": true, "keys": true, "dbsize": true,
}

// replies with a random choice in them: each must be one complete value (the reader takes exactly one
// per command, so a malformed one derails everything after it), but the two emulators may choose differently
var shapeOnly = map[string]bool{"srandmember": true, "hrandfield": true, "randomkey": true, "hello": true, "spop": true}

type caseFile struct {
	Property string   `json:"property"`
	Seed     int64    `json:"seed"`
	Case     int      `json:"case"`
	What     string   `json:"what"`
	Cmds     []string `json:"commands_hex"`
	Cuts     []int    `json:"cuts"`
	Detail   string   `json:"detail"`
}

func readReplies(c net.Conn, n int, timeout time.Duration) ([][]byte, error) {
	r := bufio.NewReaderSize(c, 1<<16)
	var out [][]byte
	for i := 0; i < n; i++ {
		c.SetReadDeadline(time.Now().Add(timeout))
		v, err := respio.ReadValue(r)
		if err != nil {
			return out, fmt.Errorf("reply %d of %d: %v (partial %q)", i+1, n, err, v)
		}
		out = append(out, v)
	}
	// nothing may follow
	c.SetReadDeadline(time.Now().Add(30 * time.Millisecond))
	if b, err := r.ReadByte(); err == nil {
		return out, fmt.Errorf("extra bytes after the last reply, first %q", b)
	}
	return out, nil
}

func main() {
	seed := flag.Int64("seed", 1, "seed")
	cases := flag.Int("cases", 40, "pipelines")
	maxCmds := flag.Int("cmds", 12, "commands per pipeline")
	prop := flag.String("property", "C01", "property id")
	out := flag.String("out", "", "stats json")
	replayDir := flag.String("replays", "/verif/replays", "replay dir")
	flag.Parse()

	start := time.Now()
	d, err := drv.Start()
	if err != nil {
		panic(err)
	}
	defer d.Close()
	rng := rand.New(rand.NewSource(*seed))
	stats := map[string]int{}
	var samples []any
	failures := 0
	fams := []string{"str", "list", "hash", "set", "bits", "keys"}

	for cs := 0; cs < *cases && failures == 0; cs++ {
		g := gen.New(*seed*7919+int64(cs), fams[cs%len(fams)])
		g.Conns = 1
		g.Malformed = 10
		d.Reset("current")
		d.MustAsk("N 1 1")
		var cmds [][][]byte
		n := 1 + rng.Intn(*maxCmds)
		tries := 0
		// every third pipeline speaks RESP3
		resp3 := cs%3 == 2
		if resp3 {
			hello := [][]byte{[]byte("HELLO"), []byte("3")}
			d.MustAsk(fmt.Sprintf("M 1 %d %d %s", time.Now().UnixNano(), len(hello), drv.HexArgs(hello)))
			cmds = append(cmds, hello)
			n++
			stats["resp3_pipelines"]++
		}
		for len(cmds) < n && tries < 10*n {
			tries++
			_, argv, _ := g.Next()
			name := strings.ToLower(argv[0])
			if excluded[name] {
				continue
			}
			// option values that depend on the clock
			skip := false
			for _, a := range argv[1:] {
				u := strings.ToUpper(a)
				if u == "EX" || u == "PX" || u == "EXAT" || u == "PXAT" {
					skip = true
				}
			}
			if skip {
				continue
			}
			if cs%5 == 0 && rng.Intn(6) == 0 {
				// hostile command names quoted back in the error reply
				argv = []string{[]string{"FOO\r\n+X", "nosuch\r\n:1\r\n", "G\nET", "\r\n"}[rng.Intn(4)], "a\r\nb"}
				if argv[0] == "\r\n" {
					argv[0] = "x\r\ny"
				}
			}
			b := make([][]byte, len(argv))
			for i, a := range argv {
				b[i] = []byte(a)
			}
			ans := d.MustAsk(fmt.Sprintf("M 1 %d %d %s", time.Now().UnixNano(), len(b), drv.HexArgs(b)))
			if strings.HasPrefix(ans, "crash") {
				stats["skipped_predicted_crash"]++
				continue
			}
			cmds = append(cmds, b)
		}
		if cs%3 != 0 {
			// reply-shape probes: one command per kind of aggregate reply (map, set, pair list, nested
			// arrays, nulls inside arrays, doubles), on keys of every type — under RESP2 and RESP3
			probes := [][]string{
				{"HSET", "t:h", "a", "1", "b", "2", "c", "3"}, {"SADD", "t:s", "a", "b", "c"},
				{"RPUSH", "t:l", "a", "b", "c", "a"}, {"SET", "t:str", "10"},
				{"HGETALL", "t:h"}, {"HRANDFIELD", "t:h", "2", "WITHVALUES"}, {"HRANDFIELD", "t:h", "-3", "WITHVALUES"},
				{"HRANDFIELD", "t:h", "2"}, {"HRANDFIELD", "t:h"}, {"HRANDFIELD", "t:none", "2", "WITHVALUES"},
				{"HKEYS", "t:h"}, {"HVALS", "t:h"}, {"HMGET", "t:h", "a", "zz", "b"}, {"HGETALL", "t:none"},
				{"SMEMBERS", "t:s"}, {"SRANDMEMBER", "t:s", "2"}, {"SRANDMEMBER", "t:s", "-4"}, {"SMISMEMBER", "t:s", "a", "zz"},
				{"SINTER", "t:s", "t:s"}, {"SUNION", "t:s", "t:none"}, {"SDIFF", "t:s", "t:none"}, {"SMEMBERS", "t:none"},
				{"LRANGE", "t:l", "0", "-1"}, {"LPOS", "t:l", "a", "COUNT", "0"}, {"LPOP", "t:l", "2"}, {"LMPOP", "1", "t:l", "LEFT"},
				{"MGET", "t:str", "t:none", "t:h"}, {"GET", "t:none"}, {"EXISTS", "t:h", "t:s"}, {"TYPE", "t:h"},
				{"HGETALL", "t:s"}, {"SMEMBERS", "t:h"}, {"BITFIELD", "t:str", "GET", "u8", "0", "OVERFLOW", "FAIL", "INCRBY", "u2", "0", "3"},
			}
			for _, pr := range probes {
				b := make([][]byte, len(pr))
				for i, a := range pr {
					b[i] = []byte(a)
				}
				ans := d.MustAsk(fmt.Sprintf("M 1 %d %d %s", time.Now().UnixNano(), len(b), drv.HexArgs(b)))
				if strings.HasPrefix(ans, "crash") {
					continue
				}
				cmds = append(cmds, b)
				stats["shape_probes"]++
			}
		}
		var stream []byte
		var hexes []string
		for _, c := range cmds {
			e := respio.EncodeCmd(c)
			stream = append(stream, e...)
			hexes = append(hexes, hex.EncodeToString(e))
		}
		if cs%4 == 1 {
			// a last command that makes the pipeline exactly a multiple of the server's 8 KiB read
			// buffer long: the reads that deliver it are all full, and nothing follows
			target := ((len(stream)+64)/8192 + 1 + rng.Intn(2)) * 8192
			for n := target - len(stream); n > 0; n-- {
				pad := [][]byte{[]byte("SET"), []byte("pad"), bytes.Repeat([]byte("p"), n)}
				if e := respio.EncodeCmd(pad); len(stream)+len(e) == target {
					cmds = append(cmds, pad)
					stream = append(stream, e...)
					hexes = append(hexes, hex.EncodeToString(e))
					stats["exact_buffer_multiples"]++
					break
				}
			}
		}
		// split points for B
		var cuts []int
		mode := cs % 6
		switch mode {
		case 0: // every byte (short pipelines only)
			if len(stream) <= 600 {
				for i := 1; i < len(stream); i++ {
					cuts = append(cuts, i)
				}
			} else {
				for i := 1; i < 300; i++ {
					cuts = append(cuts, i)
				}
			}
		case 1: // between CR and LF everywhere
			for i := 0; i+1 < len(stream); i++ {
				if stream[i] == '\r' && stream[i+1] == '\n' {
					cuts = append(cuts, i+1)
				}
			}
		case 2: // random k cuts
			k := 1 + rng.Intn(8)
			for i := 0; i < k && len(stream) > 1; i++ {
				cuts = append(cuts, 1+rng.Intn(len(stream)-1))
			}
		case 3: // one cut
			if len(stream) > 1 {
				cuts = append(cuts, 1+rng.Intn(len(stream)-1))
			}
		case 4: // at command boundaries
			p := 0
			for _, h := range hexes[:len(hexes)-1] {
				p += len(h) / 2
				cuts = append(cuts, p)
			}
		case 5: // fixed 1000-byte segments
			for p := 1000; p < len(stream); p += 1000 {
				cuts = append(cuts, p)
			}
		}
		// sorted unique
		seen := map[int]bool{}
		var sorted []int
		for p := 1; p < len(stream); p++ {
			for _, c := range cuts {
				if c == p && !seen[p] {
					seen[p] = true
					sorted = append(sorted, p)
				}
			}
		}
		cf := caseFile{Property: *prop, Seed: *seed, Case: cs, Cmds: hexes, Cuts: sorted,
			What: "pipeline sent whole to emulator A and cut at `cuts` to emulator B; replies must be one well-formed value per command and identical"}
		os.MkdirAll(*replayDir, 0o755)
		inflight := fmt.Sprintf("%s/%s-frame-%d-%d.json", *replayDir, *prop, *seed, cs)
		data, _ := json.MarshalIndent(cf, "", " ")
		os.WriteFile(inflight, data, 0o644)

		emuA, portA := startEmu()
		emuB, portB := startEmu()
		ca := dial(portA)
		cb := dial(portB)
		ca.Write(stream)
		go func() {
			prev := 0
			for _, p := range sorted {
				cb.Write(stream[prev:p])
				prev = p
				if mode == 2 || mode == 3 {
					time.Sleep(time.Duration(rng.Intn(3)) * time.Millisecond)
				}
			}
			cb.Write(stream[prev:])
		}()
		ra, errA := readReplies(ca, len(cmds), 5*time.Second)
		rb, errB := readReplies(cb, len(cmds), 5*time.Second)
		ca.Close()
		cb.Close()
		emuA.Close()
		emuB.Close()
		stats["pipelines"]++
		stats["commands"] += len(cmds)
		stats["segments"] += len(sorted) + 1
		stats["bytes"] += len(stream)
		stats[fmt.Sprintf("mode_%d", mode)]++
		detail := ""
		if errA != nil {
			detail = "unsplit stream: " + errA.Error()
		} else if errB != nil {
			detail = "split stream: " + errB.Error()
		} else {
			for i := range ra {
				if shapeOnly[strings.ToLower(string(cmds[i][0]))] {
					stats["shape_only_replies"]++
					continue
				}
				if !bytes.Equal(ra[i], rb[i]) {
					detail = fmt.Sprintf("reply %d differs: whole=%q split=%q", i, ra[i], rb[i])
					break
				}
				if !resp3 && !respio.Resp2Only(ra[i]) {
					detail = fmt.Sprintf("reply %d uses a RESP3 type on a RESP2 connection: %q", i, ra[i])
					break
				}
			}
		}
		if detail != "" {
			failures++
			cf.Detail = detail
			data, _ := json.MarshalIndent(cf, "", " ")
			os.WriteFile(inflight, data, 0o644)
			fmt.Printf("FRAME-FAIL property=%s replay=%s detail=%s\n", *prop, inflight, detail)
		} else {
			os.Remove(inflight)
			if len(samples) < 3 {
				var rd []string
				for _, c := range cmds {
					if len(rd) < 5 {
						rd = append(rd, fmt.Sprintf("%q", bytes.Join(c, []byte(" "))))
					}
				}
				samples = append(samples, map[string]any{"commands": rd, "cuts": len(sorted), "bytes": len(stream)})
			}
		}
	}
	// ---- replies come back in the order of the commands, also when an earlier reply is expensive to write
	// and a later one cheap: LRANGE of a long list, then PING / ECHO / LLEN in the same segment
	if failures == 0 {
		emu, port := startEmu()
		c := dial(port)
		enc := func(a ...string) []byte {
			b := make([][]byte, len(a))
			for i, x := range a {
				b[i] = []byte(x)
			}
			return respio.EncodeCmd(b)
		}
		elems := 30000
		for i := 0; i < elems/1000; i++ {
			args := []string{"RPUSH", "frame:big"}
			for j := 0; j < 1000; j++ {
				args = append(args, fmt.Sprintf("element-%d-%d", i, j))
			}
			c.Write(enc(args...))
			readReplies(c, 1, 10*time.Second)
		}
		for round := 0; round < 6 && failures == 0; round++ {
			var buf []byte
			buf = append(buf, enc("LRANGE", "frame:big", "0", "-1")...)
			buf = append(buf, enc("PING")...)
			buf = append(buf, enc("ECHO", "a")...)
			buf = append(buf, enc("LLEN", "frame:big")...)
			c.Write(buf)
			rs, err := readReplies(c, 4, 20*time.Second)
			stats["ordered_reply_rounds"]++
			want := []string{fmt.Sprintf("*%d\r\n", elems), "+PONG\r\n", "$1\r\na\r\n", fmt.Sprintf(":%d\r\n", elems)}
			detail := ""
			if err != nil {
				detail = "pipeline LRANGE big / PING / ECHO a / LLEN big: " + err.Error()
			} else {
				for i, w := range want {
					if !bytes.HasPrefix(rs[i], []byte(w)) {
						detail = fmt.Sprintf("pipeline LRANGE big (%d elements) / PING / ECHO a / LLEN big: reply %d starts with %.40q, expected %q — the replies are not in the order of the commands", elems, i+1, rs[i], w)
						break
					}
				}
			}
			if detail != "" {
				failures++
				pth := fmt.Sprintf("%s/%s-frame-order-%d.json", *replayDir, *prop, *seed)
				data, _ := json.MarshalIndent(map[string]any{"property": *prop, "what": "order of replies", "detail": detail}, "", " ")
				os.MkdirAll(*replayDir, 0o755)
				os.WriteFile(pth, data, 0o644)
				fmt.Printf("FRAME-FAIL property=%s replay=%s detail=%s\n", *prop, pth, detail)
			}
		}
		c.Close()
		emu.Close()
	}
	res := map[string]any{"stats": stats, "samples": samples, "failures": failures, "wall_s": time.Since(start).Seconds()}
	if *out != "" {
		data, _ := json.MarshalIndent(res, "", " ")
		os.WriteFile(*out, data, 0o644)
	}
	fmt.Printf("frame pipelines=%d commands=%d segments=%d failures=%d wall=%.1fs\n", stats["pipelines"], stats["commands"], stats["segments"], failures, time.Since(start).Seconds())
	if failures > 0 {
		os.Exit(1)
	}
}
