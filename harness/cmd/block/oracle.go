// Quiescent scenarios with a sequential oracle.
//
// A scenario is a random sequence of actions on one store: a client issues a blocking command, a
// pusher pushes (one element, several elements, two pushes in one MULTI/EXEC, a push that is taken
// away again inside the same MULTI/EXEC), someone pops without blocking, a blocked client leaves
// (its timeout runs out, CLIENT UNBLOCK TIMEOUT / ERROR). After every action the scenario waits until
// the emulator is quiet, so the outcome every correct implementation must produce is determined by
// the order of the actions alone:
//
//   - a blocking command finds data: it completes at once with the first non-empty key's element
//   - a push of n elements on a key with w waiters completes exactly the min(n, w) longest-blocked
//     waiters of that key, each with one element, and the other n-min elements stay in the list
//   - a client that left no longer takes part; the others keep their order
//   - nothing is lost or duplicated: delivered + explicitly popped + left in the lists = pushed
//
// The oracle below is that rule set (it is the multi-key, quiescent reading of `bstep` in
// lean/RedisEmu/Block.lean: push = append + wake, retry = pop the head, leave = erase).
package main

import (
	"fmt"
	"math/rand"
	"sort"
	"strings"
	"time"

	redisemu "github.com/jimsnab/go-redisemu"
)

type waiter struct {
	n       int
	cl      *redisemu.VerifClient
	ch      chan asyncResult
	argv    []string
	keys    []string
	left    bool   // pops the head (else the tail)
	dst     string // BLMOVE / BRPOPLPUSH destination
	timeout time.Duration
	since   time.Time
	done    bool
}

type oracleRun struct {
	r       *rand.Rand
	vs      *redisemu.VerifStore
	ctl     *redisemu.VerifClient
	lists   map[string][]string
	waiting []*waiter // in the order they blocked
	steps   []string
	nextEl  int
	nextW   int
	stats   map[string]int
}

func (o *oracleRun) logf(f string, a ...any) { o.steps = append(o.steps, fmt.Sprintf(f, a...)) }

func (o *oracleRun) elem() string { o.nextEl++; return fmt.Sprintf("e%d", o.nextEl) }

// the command a new waiter issues
func (o *oracleRun) newWaiter() *waiter {
	keys := []string{"ka", "kb"}
	o.r.Shuffle(2, func(i, j int) { keys[i], keys[j] = keys[j], keys[i] })
	if o.r.Intn(3) > 0 {
		keys = keys[:1]
	}
	w := &waiter{n: o.nextW, keys: keys}
	o.nextW++
	t := "0"
	if o.r.Intn(4) == 0 {
		ms := 25 + o.r.Intn(30)
		w.timeout = time.Duration(ms) * time.Millisecond
		t = fmt.Sprintf("%.3f", float64(ms)/1000)
	}
	switch o.r.Intn(6) {
	case 0, 1:
		w.left = true
		w.argv = append(append([]string{"BLPOP"}, keys...), t)
	case 2:
		w.argv = append(append([]string{"BRPOP"}, keys...), t)
	case 3:
		w.keys = keys[:1]
		w.left = true
		w.dst = "dst"
		w.argv = []string{"BLMOVE", keys[0], "dst", "LEFT", "RIGHT", t}
	case 4:
		w.keys = keys[:1]
		w.dst = "dst"
		w.argv = []string{"BRPOPLPUSH", keys[0], "dst", t}
	default:
		w.left = o.r.Intn(2) == 0
		side := "RIGHT"
		if w.left {
			side = "LEFT"
		}
		w.argv = append(append([]string{"BLMPOP", t, fmt.Sprint(len(keys))}, keys...), side)
	}
	return w
}

// take one element for w from key k in the oracle
func (o *oracleRun) take(w *waiter, k string) string {
	l := o.lists[k]
	var x string
	if w.left {
		x, l = l[0], l[1:]
	} else {
		x, l = l[len(l)-1], l[:len(l)-1]
	}
	o.lists[k] = l
	if w.dst != "" {
		if w.argv[0] == "BRPOPLPUSH" {
			o.lists[w.dst] = append([]string{x}, o.lists[w.dst]...)
		} else {
			o.lists[w.dst] = append(o.lists[w.dst], x)
		}
	}
	return x
}

func has(keys []string, k string) bool {
	for _, x := range keys {
		if x == k {
			return true
		}
	}
	return false
}

func (o *oracleRun) remove(w *waiter) {
	for i, x := range o.waiting {
		if x == w {
			o.waiting = append(o.waiting[:i:i], o.waiting[i+1:]...)
			return
		}
	}
}

// every waiter not in `served` must still be blocked; returns a complaint or ""
func (o *oracleRun) othersStillBlocked() string {
	time.Sleep(3 * time.Millisecond)
	for _, w := range o.waiting {
		select {
		case res := <-w.ch:
			if w.timeout > 0 && (res.reply == "$-1\r\n" || res.reply == "*-1\r\n") && time.Since(w.since) >= w.timeout {
				// its own timeout ran out in the meantime: a legitimate departure
				w.done = true
				continue
			}
			return fmt.Sprintf("waiter %d (%s) completed with %q although nothing was due to it", w.n, strings.Join(w.argv, " "), res.reply)
		default:
		}
	}
	kept := o.waiting[:0]
	for _, w := range o.waiting {
		if !w.done {
			kept = append(kept, w)
		}
	}
	o.waiting = kept
	return ""
}

// a push made key k hold elements: the longest waiters of k are served
func (o *oracleRun) serve(k string, what string) string {
	var due []*waiter
	avail := len(o.lists[k])
	for _, w := range o.waiting {
		if has(w.keys, k) && len(due) < avail {
			due = append(due, w)
		}
	}
	if len(due) == 0 {
		return o.othersStillBlocked()
	}
	// collect the replies
	replies := map[*waiter]string{}
	for _, w := range due {
		res, ok := get(w.ch, 600*time.Millisecond)
		if !ok {
			if w.timeout > 0 && time.Since(w.since) >= w.timeout-5*time.Millisecond {
				// raced with its own timeout; do not judge this scenario any further
				return "inconclusive"
			}
			return fmt.Sprintf("after %s the longest-blocked waiter %d (%s, blocked %d-th) is still blocked; list %s holds %v in the oracle, waiting order %v",
				what, w.n, strings.Join(w.argv, " "), w.n, k, o.lists[k], o.order())
		}
		if w.timeout > 0 && (res.reply == "$-1\r\n" || res.reply == "*-1\r\n") && time.Since(w.since) >= w.timeout-5*time.Millisecond {
			return "inconclusive" // its own timeout ran out at the same moment
		}
		replies[w] = res.reply
		w.done = true
		o.remove(w)
	}
	if len(due) == 1 {
		w := due[0]
		x := o.take(w, k)
		got := elems(replies[w])
		if len(got) == 0 || got[len(got)-1] != x {
			return fmt.Sprintf("after %s waiter %d (%s) got %q, expected element %s of %s", what, w.n, strings.Join(w.argv, " "), replies[w], x, k)
		}
	} else {
		// several waiters retry concurrently: any assignment, but distinct elements of the list
		seen := map[string]bool{}
		for _, w := range due {
			got := elems(replies[w])
			if len(got) == 0 {
				return fmt.Sprintf("after %s waiter %d (%s) completed with %q, an element was due", what, w.n, strings.Join(w.argv, " "), replies[w])
			}
			x := got[len(got)-1]
			idx := -1
			for i, y := range o.lists[k] {
				if y == x {
					idx = i
				}
			}
			if idx < 0 || seen[x] {
				return fmt.Sprintf("after %s waiter %d got %q which is not (or no longer) in list %s = %v", what, w.n, x, k, o.lists[k])
			}
			seen[x] = true
			o.lists[k] = append(o.lists[k][:idx:idx], o.lists[k][idx+1:]...)
			if w.dst != "" {
				if w.argv[0] == "BRPOPLPUSH" {
					o.lists[w.dst] = append([]string{x}, o.lists[w.dst]...)
				} else {
					o.lists[w.dst] = append(o.lists[w.dst], x)
				}
			}
		}
	}
	o.stats["oracle_served"] += len(due)
	return o.othersStillBlocked()
}

func (o *oracleRun) order() []int {
	var out []int
	for _, w := range o.waiting {
		out = append(out, w.n)
	}
	return out
}

// compare the emulator's lists with the oracle's
func (o *oracleRun) compareLists() string {
	for _, k := range []string{"ka", "kb", "dst"} {
		got := elems(do(o.ctl, "LRANGE", k, "0", "-1"))
		want := o.lists[k]
		if len(got) != len(want) {
			return fmt.Sprintf("list %s holds %v, the oracle %v", k, got, want)
		}
		if k == "dst" {
			// concurrent movers may interleave: compare as multisets
			a, b := append([]string{}, got...), append([]string{}, want...)
			sort.Strings(a)
			sort.Strings(b)
			got, want = a, b
		}
		for i := range got {
			if got[i] != want[i] {
				return fmt.Sprintf("list %s holds %v, the oracle %v", k, got, want)
			}
		}
	}
	return ""
}

// one scenario; returns ("", steps) when everything matched
func runOracleScenario(seed int64, stats map[string]int) (string, []string) {
	o := &oracleRun{r: rand.New(rand.NewSource(seed)), vs: redisemu.VerifNewStore(""), lists: map[string][]string{}, stats: stats}
	o.ctl = o.vs.NewClient()
	defer func() {
		// release whoever is still blocked
		for _, w := range o.waiting {
			do(o.ctl, "CLIENT", "UNBLOCK", fmt.Sprint(w.cl.ID()))
			get(w.ch, time.Second)
			w.cl.Close()
		}
		o.ctl.Close()
	}()
	nActions := 8 + o.r.Intn(14)
	for a := 0; a < nActions; a++ {
		var problem string
		// waiters whose own timeout is about to run out leave first, so that no action races with a timer
		for _, w := range append([]*waiter{}, o.waiting...) {
			if w.timeout > 0 && time.Since(w.since) > w.timeout-25*time.Millisecond {
				o.logf("W%d: its timeout of %v runs out", w.n, w.timeout)
				res, ok := get(w.ch, w.timeout+400*time.Millisecond)
				if !ok || !(res.reply == "$-1\r\n" || res.reply == "*-1\r\n") {
					return fmt.Sprintf("W%d with timeout %v: done=%v reply=%q", w.n, w.timeout, ok, res.reply), o.steps
				}
				if took := time.Since(w.since); took < w.timeout {
					return fmt.Sprintf("W%d with timeout %v completed after %v", w.n, w.timeout, took), o.steps
				}
				w.done = true
				o.remove(w)
				w.cl.Close()
			}
		}
		c := o.r.Intn(14)
		if len(o.waiting) < 2 && o.r.Intn(10) < 6 {
			c = 0 // keep a few clients waiting most of the time
		}
		if c < 5 && (len(o.lists["ka"]) > 0 || len(o.lists["kb"]) > 0) && o.r.Intn(10) < 7 {
			c = 11 // drain what earlier pushes left behind, so that the next blocking command really blocks
		}
		switch {
		case c < 5 && len(o.waiting) < 5: // a new blocking command
			w := o.newWaiter()
			w.cl = o.vs.NewClient()
			o.logf("W%d: %s", w.n, strings.Join(w.argv, " "))
			w.since = time.Now()
			w.ch = async(w.cl, w.argv...)
			// data already there?
			kHit := ""
			for _, k := range w.keys {
				if len(o.lists[k]) > 0 {
					kHit = k
					break
				}
			}
			if kHit != "" {
				res, ok := get(w.ch, 600*time.Millisecond)
				x := o.take(w, kHit)
				got := elems(res.reply)
				if !ok || len(got) == 0 || got[len(got)-1] != x {
					problem = fmt.Sprintf("W%d found %s non-empty and should have completed at once with %s; done=%v reply=%q", w.n, kHit, x, ok, res.reply)
				}
				w.cl.Close()
			} else {
				if !waitBlocked(w.cl, time.Second) {
					problem = fmt.Sprintf("W%d never became blocked", w.n)
					if w.timeout > 0 {
						// a busy machine may not have looked in time: the command may have blocked and run
						// into its own (25-55 ms) timeout before the first look
						if res, ok := get(w.ch, 50*time.Millisecond); ok && (res.reply == "$-1\r\n" || res.reply == "*-1\r\n") && res.took >= w.timeout {
							problem = "inconclusive"
						}
					}
				}
				o.waiting = append(o.waiting, w)
				time.Sleep(time.Millisecond)
			}
		case c < 8: // push 1..3 elements
			k := []string{"ka", "kb"}[o.r.Intn(2)]
			n := 1 + o.r.Intn(3)
			cmd := []string{"RPUSH", "LPUSH"}[o.r.Intn(2)]
			argv := []string{cmd, k}
			for i := 0; i < n; i++ {
				x := o.elem()
				argv = append(argv, x)
				if cmd == "RPUSH" {
					o.lists[k] = append(o.lists[k], x)
				} else {
					o.lists[k] = append([]string{x}, o.lists[k]...)
				}
			}
			o.logf("P: %s", strings.Join(argv, " "))
			do(o.ctl, argv...)
			problem = o.serve(k, strings.Join(argv, " "))
		case c < 10: // two pushes in one transaction
			k := []string{"ka", "kb"}[o.r.Intn(2)]
			x, y := o.elem(), o.elem()
			o.lists[k] = append(o.lists[k], x, y)
			o.logf("P: MULTI; RPUSH %s %s; RPUSH %s %s; EXEC", k, x, k, y)
			do(o.ctl, "MULTI")
			do(o.ctl, "RPUSH", k, x)
			do(o.ctl, "RPUSH", k, y)
			do(o.ctl, "EXEC")
			problem = o.serve(k, "MULTI; RPUSH "+k+" "+x+"; RPUSH "+k+" "+y+"; EXEC")
		case c < 11: // a push whose element is gone before anybody can take it
			k := []string{"ka", "kb"}[o.r.Intn(2)]
			if len(o.lists[k]) > 0 {
				continue
			}
			x := o.elem()
			o.logf("P: MULTI; RPUSH %s %s; LPOP %s; EXEC", k, x, k)
			do(o.ctl, "MULTI")
			do(o.ctl, "RPUSH", k, x)
			do(o.ctl, "LPOP", k)
			do(o.ctl, "EXEC")
			time.Sleep(3 * time.Millisecond)
			problem = o.othersStillBlocked()
			// the woken waiters must be registered again before the next action
			time.Sleep(3 * time.Millisecond)
		case c == 13 && len(o.waiting) >= 1 && o.r.Intn(2) == 0: // a waiter is unblocked and its key pushed to in one transaction
			w := o.waiting[o.r.Intn(len(o.waiting))]
			if w.timeout > 0 {
				continue
			}
			k := w.keys[0]
			if len(o.lists[k]) > 0 {
				continue
			}
			x := o.elem()
			o.lists[k] = append(o.lists[k], x)
			what := fmt.Sprintf("MULTI; CLIENT UNBLOCK <W%d>; RPUSH %s %s; EXEC", w.n, k, x)
			o.logf("P: %s", what)
			do(o.ctl, "MULTI")
			do(o.ctl, "CLIENT", "UNBLOCK", fmt.Sprint(w.cl.ID()))
			do(o.ctl, "RPUSH", k, x)
			do(o.ctl, "EXEC")
			res, ok := get(w.ch, 600*time.Millisecond)
			if !ok {
				problem = fmt.Sprintf("W%d still blocked after %s", w.n, what)
			} else if !(res.reply == "$-1\r\n" || res.reply == "*-1\r\n") {
				problem = fmt.Sprintf("W%d was unblocked before the push in the same transaction but answered %q", w.n, res.reply)
			}
			w.done = true
			o.remove(w)
			w.cl.Close()
			if problem == "" {
				// the element belongs to the longest-blocked of the remaining waiters of the key
				problem = o.serve(k, what)
			}
		case c < 12: // non-blocking pop
			k := []string{"ka", "kb"}[o.r.Intn(2)]
			if len(o.lists[k]) == 0 {
				k = map[string]string{"ka": "kb", "kb": "ka"}[k]
			}
			o.logf("P: LPOP %s", k)
			got := do(o.ctl, "LPOP", k)
			want := "$-1\r\n"
			if l := o.lists[k]; len(l) > 0 {
				want = fmt.Sprintf("$%d\r\n%s\r\n", len(l[0]), l[0])
				o.lists[k] = l[1:]
			}
			if got != want {
				problem = fmt.Sprintf("LPOP %s answered %q, the oracle %q", k, got, want)
			}
		default: // a waiter leaves
			if len(o.waiting) == 0 {
				continue
			}
			w := o.waiting[o.r.Intn(len(o.waiting))]
			if w.timeout > 0 {
				o.logf("W%d: its timeout of %v runs out", w.n, w.timeout)
				res, ok := get(w.ch, w.timeout+400*time.Millisecond)
				if !ok || !(res.reply == "$-1\r\n" || res.reply == "*-1\r\n") {
					problem = fmt.Sprintf("W%d with timeout %v: done=%v reply=%q", w.n, w.timeout, ok, res.reply)
				}
			} else {
				mode := []string{"TIMEOUT", "ERROR"}[o.r.Intn(2)]
				o.logf("P: CLIENT UNBLOCK <W%d> %s", w.n, mode)
				do(o.ctl, "CLIENT", "UNBLOCK", fmt.Sprint(w.cl.ID()), mode)
				res, ok := get(w.ch, 600*time.Millisecond)
				if !ok {
					problem = fmt.Sprintf("W%d still blocked after CLIENT UNBLOCK %s", w.n, mode)
				} else if mode == "ERROR" && !strings.HasPrefix(res.reply, "-UNBLOCKED") {
					problem = fmt.Sprintf("W%d unblocked with ERROR answered %q", w.n, res.reply)
				} else if mode == "TIMEOUT" && !(res.reply == "$-1\r\n" || res.reply == "*-1\r\n") {
					problem = fmt.Sprintf("W%d unblocked with TIMEOUT answered %q", w.n, res.reply)
				}
			}
			w.done = true
			o.remove(w)
			w.cl.Close()
			if problem == "" {
				problem = o.othersStillBlocked()
			}
		}
		if problem == "inconclusive" {
			stats["oracle_inconclusive"]++
			return "", o.steps
		}
		if problem == "" {
			problem = o.compareLists()
		}
		if problem != "" {
			return problem, o.steps
		}
		stats["oracle_actions"]++
	}
	stats["oracle_scenarios"]++
	return "", o.steps
}
