package main

// Multi-key scenarios against the Lean model `RedisEmu.MWake` (the model the theorems mfull_reachable /
// multi_key_quiescent_means_served of C11 are about): clients block on one to three of three keys, elements
// are pushed singly and in transactions of two pushes, popped by a bystander, clients are unblocked. After
// every action the scenario waits until nothing moves any more and compares who is still blocked and how long
// every list is with the model's run of the same actions (driver command `MW`).

import (
	"fmt"
	"math/rand"
	"strings"
	"time"

	redisemu "github.com/jimsnab/go-redisemu"

	"verif/harness/internal/drv"
)

func runModelScenario(d *drv.Driver, seed int64, stats map[string]int) (problem string, steps []string) {
	r := rand.New(rand.NewSource(seed))
	vs := redisemu.VerifNewStore("")
	p := vs.NewClient()
	defer p.Close()
	keys := []string{"mk0", "mk1", "mk2"}
	type waiter struct {
		cl   *redisemu.VerifClient
		ch   chan asyncResult
		done bool
	}
	var ws []*waiter
	var acts []string
	defer func() {
		for _, w := range ws {
			if !w.done {
				do(p, "CLIENT", "UNBLOCK", fmt.Sprint(w.cl.ID()))
				get(w.ch, time.Second)
			}
			w.cl.Close()
		}
	}()
	settle := func() {
		// nothing moves any more: every client that has not completed is waiting again (captured), and no
		// completion has arrived for a while (a loaded machine can take long to schedule a woken client)
		quiet := 0
		for i := 0; i < 400 && quiet < 4; i++ {
			time.Sleep(3 * time.Millisecond)
			moved := false
			for _, w := range ws {
				if !w.done {
					if _, ok := get(w.ch, 0); ok {
						w.done, moved = true, true
					} else if !w.cl.IsBlocked() {
						moved = true // in motion: woken, or not yet waiting
					}
				}
			}
			if moved {
				quiet = 0
			} else {
				quiet++
			}
		}
	}
	n := 4 + r.Intn(8)
	for a := 0; a < n; a++ {
		switch k := r.Intn(10); {
		case k < 4 && len(ws) < 6: // a new blocked client
			cnt := 1 + r.Intn(3)
			perm := r.Perm(3)[:cnt]
			var ks, ids []string
			for _, i := range perm {
				ks = append(ks, keys[i])
				ids = append(ids, fmt.Sprint(i))
			}
			var argv []string
			switch r.Intn(3) {
			case 0:
				argv = append(append([]string{"BLPOP"}, ks...), "0")
			case 1:
				argv = append(append([]string{"BRPOP"}, ks...), "0")
			default:
				argv = append([]string{"BLMPOP", "0", fmt.Sprint(len(ks))}, append(ks, "LEFT")...)
			}
			cl := vs.NewClient()
			w := &waiter{cl: cl, ch: async(cl, argv...)}
			ws = append(ws, w)
			if !waitBlocked(cl, 300*time.Millisecond) {
				// served at once (or not blocked yet): settle decides
			}
			steps = append(steps, fmt.Sprintf("W%d: %s", len(ws)-1, strings.Join(argv, " ")))
			acts = append(acts, "reg:"+strings.Join(ids, ","))
		case k < 6: // one push
			i, cnt := r.Intn(3), 1+r.Intn(2)
			argv := []string{"RPUSH", keys[i]}
			for e := 0; e < cnt; e++ {
				argv = append(argv, fmt.Sprintf("e%d-%d", a, e))
			}
			do(p, argv...)
			steps = append(steps, "P: "+strings.Join(argv, " "))
			acts = append(acts, fmt.Sprintf("push:%dx%d", i, cnt))
		case k < 8: // two pushes as one transaction
			i, j := r.Intn(3), r.Intn(3)
			do(p, "MULTI")
			do(p, "RPUSH", keys[i], fmt.Sprintf("t%d-a", a))
			do(p, "RPUSH", keys[j], fmt.Sprintf("t%d-b", a))
			do(p, "EXEC")
			steps = append(steps, fmt.Sprintf("P: MULTI; RPUSH %s …; RPUSH %s …; EXEC", keys[i], keys[j]))
			acts = append(acts, fmt.Sprintf("push:%dx1:%dx1", i, j))
		case k < 9: // a bystander pops
			i := r.Intn(3)
			do(p, "LPOP", keys[i])
			steps = append(steps, "P: LPOP "+keys[i])
			acts = append(acts, fmt.Sprintf("steal:%d", i))
		default: // unblock somebody who is blocked
			var blocked []int
			for i, w := range ws {
				if !w.done {
					blocked = append(blocked, i)
				}
			}
			if len(blocked) == 0 {
				continue
			}
			c := blocked[r.Intn(len(blocked))]
			do(p, "CLIENT", "UNBLOCK", fmt.Sprint(ws[c].cl.ID()))
			steps = append(steps, fmt.Sprintf("P: CLIENT UNBLOCK <W%d>", c))
			acts = append(acts, fmt.Sprintf("leave:%d", c))
		}
		settle()
		stats["model_scenario_actions"]++
		var lens, blocked []string
		for i, k := range keys {
			lens = append(lens, fmt.Sprintf("%d:%s", i, strings.TrimSpace(strings.TrimPrefix(do(p, "LLEN", k), ":"))))
		}
		for i, w := range ws {
			if !w.done {
				blocked = append(blocked, fmt.Sprint(i))
			}
		}
		got := "len=" + strings.Join(lens, ",") + ";blocked=" + strings.Join(blocked, ",")
		acts[len(acts)-1] += "~" + got
		// the model follows every schedule of the clients in motion that explains what was observed so far
		if ans := d.MustAsk("MWO 0,1,2 " + strings.Join(acts, " ")); ans != "ok" {
			return fmt.Sprintf("the implementation shows %q (list lengths per key; clients still blocked) and no schedule of the model explains it: %s", got, ans), steps
		}
	}
	stats["model_scenarios"]++
	return "", steps
}
