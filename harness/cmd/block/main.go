// block: C11 and C12. Real goroutines block in BLPOP / BRPOP / BLMOVE / BRPOPLPUSH / BLMPOP on in-process
// connections while pushers and non-blocking consumers run; schedule points (verif build tag) park a
// chosen client inside the block/wake loop so that pushes, CLIENT UNBLOCK and steals can be placed at
// every step of the protocol.
//
//	C11: conservation (every pushed element is consumed exactly once or still in its list), list order
//	     per consumer, longest waiter first, no waiter left blocked on a non-empty list.
//	C12: timeouts (not early, promptly), timeout 0 waits, CLIENT UNBLOCK TIMEOUT|ERROR ends exactly the
//	     target and reports 1 only for a blocked client, closed connections stop competing, the
//	     connection is reusable afterwards, blocking commands inside MULTI do not block.
package main

import (
	"bufio"
	"context"
	"encoding/json"
	"flag"
	"fmt"
	"math/rand"
	"net"
	"os"
	"sort"
	"strings"
	"sync"
	"time"
	"verif/harness/internal/drv"

	"github.com/jimsnab/go-lane"
	redisemu "github.com/jimsnab/go-redisemu"
)

func toArgv(a []string) [][]byte {
	out := make([][]byte, len(a))
	for i, s := range a {
		out[i] = []byte(s)
	}
	return out
}

func do(cl *redisemu.VerifClient, a ...string) string {
	r, p := cl.Dispatch(toArgv(a))
	if p != "" {
		return "PANIC " + p
	}
	return string(r)
}

// elements of a flat array reply
func elems(reply string) []string {
	lines := strings.Split(reply, "\r\n")
	var out []string
	for i := 0; i+1 < len(lines); i++ {
		if strings.HasPrefix(lines[i], "$") && lines[i] != "$-1" {
			out = append(out, lines[i+1])
			i++
		}
	}
	return out
}

func waitBlocked(cl *redisemu.VerifClient, d time.Duration) bool {
	end := time.Now().Add(d)
	for time.Now().Before(end) {
		if cl.IsBlocked() {
			return true
		}
		time.Sleep(200 * time.Microsecond)
	}
	return false
}

type asyncResult struct {
	reply string
	took  time.Duration
}

func async(cl *redisemu.VerifClient, a ...string) chan asyncResult {
	ch := make(chan asyncResult, 1)
	go func() {
		t0 := time.Now()
		r := do(cl, a...)
		ch <- asyncResult{r, time.Since(t0)}
	}()
	return ch
}

func get(ch chan asyncResult, d time.Duration) (asyncResult, bool) {
	select {
	case r := <-ch:
		return r, true
	case <-time.After(d):
		return asyncResult{}, false
	}
}

func main() {
	seed := flag.Int64("seed", 1, "seed")
	which := flag.String("which", "C11", "C11 or C12")
	onlyModel := flag.Int("only-model", 0, "run only this many multi-key scenarios against the Lean model")
	rounds := flag.Int("rounds", 12, "rounds of every scenario")
	prop := flag.String("property", "", "property")
	out := flag.String("out", "", "stats json")
	replayDir := flag.String("replays", "/verif/replays", "replay dir")
	flag.Parse()
	if *prop == "" {
		*prop = *which
	}
	start := time.Now()
	r := rand.New(rand.NewSource(*seed))
	stats := map[string]int{}
	var samples []string
	failures := 0
	fail := func(scn string, n int, steps []string, detail string) {
		failures++
		os.MkdirAll(*replayDir, 0o755)
		path := fmt.Sprintf("%s/%s-block-%s-%d-%d.json", *replayDir, *prop, scn, *seed, n)
		data, _ := json.MarshalIndent(map[string]any{"property": *prop, "scenario": scn, "seed": *seed, "round": n, "steps": steps, "detail": detail}, "", " ")
		os.WriteFile(path, data, 0o644)
		fmt.Printf("BLOCK-FAIL property=%s replay=%s detail=%.300s\n", *prop, path, detail)
	}
	known := func(id, text string) {
		if stats["known_"+id] == 0 {
			fmt.Printf("KNOWN-OBSERVED %s %s\n", id, text)
		}
		stats["known_"+id]++
	}
	blockers := [][]string{{"BLPOP", "K", "T"}, {"BRPOP", "K", "T"}, {"BLMOVE", "K", "dst", "LEFT", "RIGHT", "T"},
		{"BRPOPLPUSH", "K", "dst", "T"}, {"BLMPOP", "T", "1", "K", "LEFT"}}
	mk := func(tmpl []string, key, timeout string) []string {
		o := make([]string, len(tmpl))
		for i, s := range tmpl {
			switch s {
			case "K":
				o[i] = key
			case "T":
				o[i] = timeout
			default:
				o[i] = s
			}
		}
		return o
	}

	if *which == "C11" && *onlyModel == 0 {
		for round := 0; round < *rounds && failures == 0; round++ {
			// ---- conservation / exactly once / order
			vs := redisemu.VerifNewStore("")
			keys := []string{"q0", "q1"}
			nCons, nPush, nSteal := 2+r.Intn(3), 2, 1+r.Intn(2)
			perPusher := 120
			var mu sync.Mutex
			consumed := map[string]int{}
			perConsumer := make([][]string, nCons)
			var wg sync.WaitGroup
			stop := make(chan struct{})
			for c := 0; c < nCons; c++ {
				wg.Add(1)
				go func(c int) {
					defer wg.Done()
					cl := vs.NewClient()
					defer cl.Close()
					rr := rand.New(rand.NewSource(*seed*17 + int64(round*10+c)))
					for {
						select {
						case <-stop:
							return
						default:
						}
						t := blockers[rr.Intn(2)] // BLPOP / BRPOP on both keys
						args := []string{t[0], keys[0], keys[1], "0.03"}
						if rr.Intn(4) == 0 {
							args = mk(blockers[4], keys[rr.Intn(2)], "0.03")
						}
						reply := do(cl, args...)
						es := elems(reply)
						if len(es) >= 2 {
							mu.Lock()
							for _, e := range es[1:] {
								consumed[e]++
								if args[0] == "BLPOP" {
									perConsumer[c] = append(perConsumer[c], es[0]+"/"+e)
								}
							}
							mu.Unlock()
						}
					}
				}(c)
			}
			for s := 0; s < nSteal; s++ {
				wg.Add(1)
				go func(s int) {
					defer wg.Done()
					cl := vs.NewClient()
					defer cl.Close()
					rr := rand.New(rand.NewSource(*seed*19 + int64(round*10+s)))
					for {
						select {
						case <-stop:
							return
						default:
						}
						reply := do(cl, []string{"LPOP", "RPOP"}[rr.Intn(2)], keys[rr.Intn(2)])
						if es := elems(reply); len(es) == 1 {
							mu.Lock()
							consumed[es[0]]++
							mu.Unlock()
						}
						time.Sleep(time.Duration(rr.Intn(300)) * time.Microsecond)
					}
				}(s)
			}
			pushed := map[string]bool{}
			var pwg sync.WaitGroup
			for p := 0; p < nPush; p++ {
				pwg.Add(1)
				go func(p int) {
					defer pwg.Done()
					cl := vs.NewClient()
					defer cl.Close()
					rr := rand.New(rand.NewSource(*seed*23 + int64(round*10+p)))
					for i := 0; i < perPusher; {
						n := 1 + rr.Intn(3)
						args := []string{"RPUSH", keys[p%2]}
						for j := 0; j < n && i < perPusher; j++ {
							e := fmt.Sprintf("p%d-%05d", p, i)
							args = append(args, e)
							mu.Lock()
							pushed[e] = true
							mu.Unlock()
							i++
						}
						do(cl, args...)
						if rr.Intn(3) == 0 {
							time.Sleep(time.Duration(rr.Intn(400)) * time.Microsecond)
						}
					}
				}(p)
			}
			pwg.Wait()
			time.Sleep(80 * time.Millisecond)
			close(stop)
			wg.Wait()
			cl := vs.NewClient()
			remaining := append(elems(do(cl, "LRANGE", keys[0], "0", "-1")), elems(do(cl, "LRANGE", keys[1], "0", "-1"))...)
			cl.Close()
			for _, e := range remaining {
				consumed[e]++
			}
			steps := []string{fmt.Sprintf("%d blocking consumers, %d pushers x %d elements, %d non-blocking consumers on %v", nCons, nPush, perPusher, nSteal, keys)}
			var lost, dup []string
			for e := range pushed {
				if consumed[e] == 0 {
					lost = append(lost, e)
				} else if consumed[e] > 1 {
					dup = append(dup, e)
				}
			}
			sort.Strings(lost)
			if len(lost) > 0 {
				fail("conservation", round, steps, fmt.Sprintf("%d pushed elements were neither returned to a consumer nor left in a list, e.g. %v", len(lost), lost[:1]))
				break
			}
			if len(dup) > 0 {
				fail("conservation", round, steps, fmt.Sprintf("%d elements were delivered more than once, e.g. %v", len(dup), dup[:1]))
				break
			}
			// per consumer, BLPOP results from one list are in list (= push) order
			for c, seq := range perConsumer {
				last := map[string]string{}
				for _, ke := range seq {
					parts := strings.SplitN(ke, "/", 2)
					pusher := parts[0] + parts[1][:2]
					if prev, ok := last[pusher]; ok && prev > parts[1] {
						fail("order", round, steps, fmt.Sprintf("consumer %d got %s after %s from the head of %s", c, parts[1], prev, parts[0]))
					}
					last[pusher] = parts[1]
				}
			}
			stats["conservation_rounds"]++
			stats["elements"] += len(pushed)
			if failures > 0 {
				break
			}

			// ---- longest waiter first, for each of the five commands
			for bi, tmpl := range blockers {
				vs := redisemu.VerifNewStore("")
				a, b, p := vs.NewClient(), vs.NewClient(), vs.NewClient()
				cha := async(a, mk(tmpl, "fk", "2")...)
				if !waitBlocked(a, time.Second) {
					fail("fifo", round, []string{strings.Join(mk(tmpl, "fk", "2"), " ")}, "first client never became blocked")
					break
				}
				time.Sleep(2 * time.Millisecond)
				chb := async(b, mk(blockers[(bi+1)%2], "fk", "2")...)
				if !waitBlocked(b, time.Second) {
					fail("fifo", round, nil, "second client never became blocked")
					break
				}
				time.Sleep(2 * time.Millisecond)
				do(p, "RPUSH", "fk", "only")
				ra, okA := get(cha, 500*time.Millisecond)
				_, okB := get(chb, 30*time.Millisecond)
				steps := []string{"A: " + strings.Join(mk(tmpl, "fk", "2"), " "), "B: " + strings.Join(mk(blockers[(bi+1)%2], "fk", "2"), " "), "P: RPUSH fk only"}
				if !okA || !strings.Contains(ra.reply, "only") {
					fail("fifo", round, steps, fmt.Sprintf("the longest-blocked client did not get the element (A done=%v reply=%q, B done=%v)", okA, ra.reply, okB))
					break
				}
				if okB {
					fail("fifo", round, steps, "both waiters completed for one pushed element")
					break
				}
				do(p, "RPUSH", "fk", "second")
				rb, okB2 := get(chb, 500*time.Millisecond)
				if !okB2 || !strings.Contains(rb.reply, "second") {
					fail("fifo", round, steps, fmt.Sprintf("the second waiter did not get the second element (%q)", rb.reply))
					break
				}
				stats["fifo_checks"]++
				a.Close()
				b.Close()
				p.Close()
			}
			if failures > 0 {
				break
			}

			// ---- a waiter that rotates the list onto itself takes nothing away: the next waiter is served too
			for _, rot := range [][]string{{"BLMOVE", "rk", "rk", "LEFT", "RIGHT", "0"}, {"BRPOPLPUSH", "rk", "rk", "0"}, {"BLMOVE", "rk", "rk", "RIGHT", "RIGHT", "0"}} {
				vs := redisemu.VerifNewStore("")
				a, b, p := vs.NewClient(), vs.NewClient(), vs.NewClient()
				cha := async(a, rot...)
				if !waitBlocked(a, time.Second) {
					fail("rotation", round, []string{strings.Join(rot, " ")}, "the rotating client never became blocked")
					break
				}
				time.Sleep(2 * time.Millisecond)
				chb := async(b, "BLPOP", "rk", "0")
				if !waitBlocked(b, time.Second) {
					fail("rotation", round, nil, "the second client never became blocked")
					break
				}
				time.Sleep(2 * time.Millisecond)
				do(p, "RPUSH", "rk", "one")
				steps := []string{"A: " + strings.Join(rot, " "), "B: BLPOP rk 0", "P: RPUSH rk one"}
				ra, okA := get(cha, 500*time.Millisecond)
				if !okA || !strings.Contains(ra.reply, "one") {
					fail("rotation", round, steps, fmt.Sprintf("the rotating client was not served (done=%v reply=%q)", okA, ra.reply))
					break
				}
				rb, okB := get(chb, 500*time.Millisecond)
				if !okB || !strings.Contains(rb.reply, "one") {
					fail("rotation", round, steps, fmt.Sprintf("lost wake-up: the rotation left the element in the list (%s) but the next waiter is still blocked (done=%v reply=%q)",
						strings.TrimSpace(do(p, "LRANGE", "rk", "0", "-1")), okB, rb.reply))
					do(p, "CLIENT", "UNBLOCK", fmt.Sprint(b.ID()))
					break
				}
				if n := do(p, "LLEN", "rk"); n != ":0\r\n" {
					fail("rotation", round, steps, "after both were served the list should be empty, LLEN answers "+strings.TrimSpace(n))
					break
				}
				stats["rotation_checks"]++
				a.Close()
				b.Close()
				p.Close()
			}
			if failures > 0 {
				break
			}

			// ---- a woken waiter whose element is taken away must keep waiting for the next push
			{
				vs := redisemu.VerifNewStore("")
				a, p := vs.NewClient(), vs.NewClient()
				cha := async(a, "BLPOP", "sk", "0")
				waitBlocked(a, time.Second)
				time.Sleep(2 * time.Millisecond)
				// the push and the steal happen in one transaction: A is woken but finds nothing
				do(p, "MULTI")
				do(p, "RPUSH", "sk", "x")
				do(p, "LPOP", "sk")
				do(p, "EXEC")
				time.Sleep(5 * time.Millisecond)
				do(p, "RPUSH", "sk", "y")
				ra, ok := get(cha, 400*time.Millisecond)
				steps := []string{"A: BLPOP sk 0", "P: MULTI; RPUSH sk x; LPOP sk; EXEC", "P: RPUSH sk y"}
				if !ok {
					left := do(p, "LRANGE", "sk", "0", "-1")
					if strings.Contains(left, "y") {
						known("D29", "a waiter that was woken but found its element gone is no longer registered: a later push leaves it blocked while the list is non-empty")
					} else {
						fail("stranded", round, steps, "waiter still blocked and the element is gone: "+left)
					}
					do(p, "CLIENT", "UNBLOCK", fmt.Sprint(a.ID()))
					get(cha, time.Second)
				} else if !strings.Contains(ra.reply, "y") {
					fail("stranded", round, steps, fmt.Sprintf("waiter completed with %q", ra.reply))
				}
				stats["stranded_checks"]++
				a.Close()
				p.Close()
			}
			if failures > 0 {
				break
			}

			// ---- a push that lands between a wake-up that found nothing and the re-registration wakes nobody
			// (the client is in no queue at that moment): the look after re-registering must find it
			// (schedule point before-reenter)
			{
				vs := redisemu.VerifNewStore("")
				a, p := vs.NewClient(), vs.NewClient()
				gate := make(chan struct{})
				parked := make(chan struct{}, 1)
				target := a.ID()
				redisemu.VerifSetPointHook(func(name string, id int64) {
					if id == target && name == "before-reenter" {
						select {
						case parked <- struct{}{}:
							<-gate
						default:
						}
					}
				})
				cha := async(a, "BLPOP", "wk", "0")
				if waitBlocked(a, time.Second) {
					time.Sleep(2 * time.Millisecond)
					do(p, "MULTI")
					do(p, "RPUSH", "wk", "x")
					do(p, "LPOP", "wk")
					do(p, "EXEC")
					select {
					case <-parked:
						do(p, "RPUSH", "wk", "y") // nobody is in the queue: nobody is woken
						close(gate)
						ra, ok := get(cha, 600*time.Millisecond)
						if !ok || !strings.Contains(ra.reply, "y") {
							fail("window", round, []string{"A: BLPOP wk 0", "P: MULTI; RPUSH wk x; LPOP wk; EXEC (A is woken in vain, parked before it re-registers)", "P: RPUSH wk y", "A: resumes"},
								fmt.Sprintf("lost wake-up: the element pushed while the client was between its failed look and its re-registration stays in the list (LLEN %s) and the client sleeps (done=%v reply=%q)",
									strings.TrimSpace(do(p, "LLEN", "wk")), ok, ra.reply))
							do(p, "CLIENT", "UNBLOCK", fmt.Sprint(target))
							get(cha, time.Second)
						}
						stats["reenter_window_checks"]++
					case <-time.After(time.Second):
						close(gate)
						do(p, "CLIENT", "UNBLOCK", fmt.Sprint(target))
						get(cha, time.Second)
					}
				} else {
					do(p, "CLIENT", "UNBLOCK", fmt.Sprint(target))
					get(cha, time.Second)
				}
				redisemu.VerifSetPointHook(nil)
				a.Close()
				p.Close()
			}
			if failures > 0 {
				break
			}

			// ---- a waiter on several keys is woken by a push to one key and finds an element in an earlier
			// one (both pushed in one transaction): whichever it takes, nobody may stay blocked on a list
			// that still holds an element
			if os.Getenv("BLOCK_ONLY_MODEL") == "" {
				vs := redisemu.VerifNewStore("")
				w1, w2, p := vs.NewClient(), vs.NewClient(), vs.NewClient()
				ch1 := async(w1, "BLPOP", "ma", "mb", "0")
				waitBlocked(w1, time.Second)
				time.Sleep(2 * time.Millisecond)
				ch2 := async(w2, "BLPOP", "mb", "0")
				waitBlocked(w2, time.Second)
				time.Sleep(2 * time.Millisecond)
				do(p, "MULTI")
				do(p, "RPUSH", "mb", "y")
				do(p, "RPUSH", "ma", "x")
				do(p, "EXEC")
				steps := []string{"W1: BLPOP ma mb 0", "W2: BLPOP mb 0", "P: MULTI; RPUSH mb y; RPUSH ma x; EXEC"}
				r1, ok1 := get(ch1, 800*time.Millisecond)
				r2, ok2 := get(ch2, 800*time.Millisecond)
				la, lb := strings.TrimSpace(do(p, "LLEN", "ma")), strings.TrimSpace(do(p, "LLEN", "mb"))
				stats["two_key_wake_checks"]++
				if !ok1 {
					fail("two-key-wake", round, steps, fmt.Sprintf("W1 is still blocked (LLEN ma %s, LLEN mb %s)", la, lb))
					do(p, "CLIENT", "UNBLOCK", fmt.Sprint(w1.ID()))
					get(ch1, time.Second)
				} else if !ok2 && lb != ":0" {
					detail := fmt.Sprintf("lost wake-up: W1 was served %q; W2 is still blocked on mb although mb holds an element (LLEN mb %s) and nobody else is about to take it", r1.reply, lb)
					fail("two-key-wake", round, steps, detail)
				}
				_ = r2
				if !ok2 {
					do(p, "CLIENT", "UNBLOCK", fmt.Sprint(w2.ID()))
					get(ch2, time.Second)
				}
				w1.Close()
				w2.Close()
				p.Close()
			}
			if failures > 0 {
				break
			}

			// ---- a waiter on several keys leaves at the very moment a push to one of them wakes it (the
			// unblock and the push are one transaction): the wake-up it did not use belongs to the next
			// waiter of the key that was pushed to, whichever of its keys that is
			for variant := 0; variant < 2 && failures == 0; variant++ {
				vs := redisemu.VerifNewStore("")
				w1, w2, w3, p := vs.NewClient(), vs.NewClient(), vs.NewClient(), vs.NewClient()
				first, second := "ha", "hb"
				pushed := second
				if variant == 1 {
					pushed = first
				}
				ch1 := async(w1, "BLPOP", first, second, "0")
				waitBlocked(w1, time.Second)
				time.Sleep(2 * time.Millisecond)
				ch3 := async(w3, "BLPOP", first, "0")
				waitBlocked(w3, time.Second)
				time.Sleep(2 * time.Millisecond)
				ch2 := async(w2, "BRPOP", second, "0")
				waitBlocked(w2, time.Second)
				time.Sleep(2 * time.Millisecond)
				do(p, "MULTI")
				do(p, "CLIENT", "UNBLOCK", fmt.Sprint(w1.ID()))
				do(p, "RPUSH", pushed, "x")
				do(p, "EXEC")
				steps := []string{"W1: BLPOP ha hb 0", "W3: BLPOP ha 0", "W2: BRPOP hb 0", "P: MULTI; CLIENT UNBLOCK <W1>; RPUSH " + pushed + " x; EXEC"}
				get(ch1, 500*time.Millisecond)
				served, other := ch2, ch3
				servedC, otherC := w2, w3
				if pushed == first {
					served, other, servedC, otherC = ch3, ch2, w3, w2
				}
				rs, ok := get(served, 800*time.Millisecond)
				if !ok || !strings.Contains(rs.reply, "x") {
					left := strings.TrimSpace(do(p, "LLEN", pushed))
					fail("handoff", round, steps, fmt.Sprintf("lost wake-up: the waiter on %s is still blocked (done=%v reply=%q) although the list holds %s element(s) and the client the push woke has left", pushed, ok, rs.reply, left))
					do(p, "CLIENT", "UNBLOCK", fmt.Sprint(servedC.ID()))
					get(served, time.Second)
				}
				do(p, "CLIENT", "UNBLOCK", fmt.Sprint(otherC.ID()))
				get(other, time.Second)
				stats["handoff_checks"]++
				w1.Close()
				w2.Close()
				w3.Close()
				p.Close()
			}
		}
	}

	// ---- quiescent random scenarios against the sequential oracle (oracle.go), both properties
	for n := 0; n < *rounds*6 && failures == 0 && *onlyModel == 0; n++ {
		problem, steps := runOracleScenario(*seed*1000003+int64(n), stats)
		if problem != "" {
			fail("oracle", n, steps, problem)
		} else if len(samples) < 3 && len(steps) > 4 {
			samples = append(samples, "scenario: "+strings.Join(steps, " | "))
		}
	}

	// ---- multi-key scenarios against the Lean model of the wake-up accounting (mwake.go)
	if *which == "C11" && failures == 0 {
		if d, err := drv.Start(); err != nil {
			fail("model", 0, nil, "cannot start the model driver: "+err.Error())
		} else {
			count := *rounds * 5
			if *onlyModel > 0 {
				count = *onlyModel
			}
			for n := 0; n < count && failures == 0; n++ {
				problem, steps := runModelScenario(d, *seed*7368787+int64(n), stats)
				if problem != "" {
					fail("model", n, steps, problem)
				}
			}
			d.Close()
		}
	}

	if *which == "C12" {
		for round := 0; round < *rounds && failures == 0; round++ {
			vs := redisemu.VerifNewStore("")
			a, p := vs.NewClient(), vs.NewClient()
			tmpl := blockers[round%len(blockers)]
			// ---- timeout: not early, promptly
			// the timeout is a decimal number of seconds: tens of milliseconds, fractions of a millisecond,
			// and milliseconds with a fraction all have to end the command, none of them early
			us := (40 + r.Intn(120)) * 1000
			switch round % 3 {
			case 1:
				us = 100 + r.Intn(900)
			case 2:
				us = 1000 + r.Intn(9000)
			}
			want := time.Duration(us) * time.Microsecond
			tsec := fmt.Sprintf("%.6f", float64(us)/1e6)
			steps := []string{strings.Join(mk(tmpl, "tk", tsec), " ")}
			res, ended := get(async(a, mk(tmpl, "tk", tsec)...), want+1500*time.Millisecond)
			if !ended {
				fail("timeout", round, steps, fmt.Sprintf("the timeout of %s s is positive, but %v after the command was issued it has not ended (client blocked: %v)", tsec, want+1500*time.Millisecond, a.IsBlocked()))
				do(p, "CLIENT", "UNBLOCK", fmt.Sprint(a.ID()))
				break
			}
			if !(res.reply == "$-1\r\n" || res.reply == "*-1\r\n") {
				fail("timeout", round, steps, fmt.Sprintf("timed-out command answered %q", res.reply))
				break
			}
			if res.took < want {
				fail("timeout", round, steps, fmt.Sprintf("completed after %v, earlier than its timeout of %v", res.took, want))
				break
			}
			if res.took > want+250*time.Millisecond {
				fail("timeout", round, steps, fmt.Sprintf("completed after %v, long after its timeout of %v", res.took, want))
				break
			}
			stats["timeout_checks"]++
			// ---- a wake-up that finds nothing does not restart the timeout
			{
				tms := 160 + r.Intn(80)
				ts := fmt.Sprintf("%.3f", float64(tms)/1000)
				ch := async(a, mk(tmpl, "tk", ts)...)
				if !waitBlocked(a, time.Second) {
					fail("timeout-after-wake", round, steps, "client never became blocked")
					break
				}
				time.Sleep(time.Duration(tms*6/10) * time.Millisecond)
				do(p, "MULTI")
				do(p, "RPUSH", "tk", "x")
				do(p, "LPOP", "tk")
				do(p, "EXEC")
				res, ok := get(ch, time.Duration(tms)*time.Millisecond+3*time.Second)
				st2 := []string{"A: " + strings.Join(mk(tmpl, "tk", ts), " "), fmt.Sprintf("P (after %d ms): MULTI; RPUSH tk x; LPOP tk; EXEC", tms*6/10)}
				if !ok {
					fail("timeout-after-wake", round, st2, "the blocked command never completed")
					break
				}
				if !(res.reply == "$-1\r\n" || res.reply == "*-1\r\n") {
					fail("timeout-after-wake", round, st2, fmt.Sprintf("timed-out command answered %q", res.reply))
					break
				}
				if res.took < time.Duration(tms)*time.Millisecond || res.took > time.Duration(tms)*time.Millisecond+time.Duration(tms*4/10)*time.Millisecond {
					fail("timeout-after-wake", round, st2, fmt.Sprintf("completed after %v; its timeout is %d ms, counted from when the command was issued", res.took, tms))
					break
				}
				stats["timeout_after_wake_checks"]++
			}
			// reusable
			if do(a, "PING") != "+PONG\r\n" {
				fail("reuse", round, steps, "connection does not answer PING after a timed-out block")
				break
			}
			// ---- timeout 0 waits; CLIENT UNBLOCK TIMEOUT | ERROR
			for _, mode := range []string{"", "TIMEOUT", "ERROR"} {
				ch := async(a, mk(tmpl, "tk", "0")...)
				if !waitBlocked(a, time.Second) {
					fail("unblock", round, steps, "client never became blocked with timeout 0")
					break
				}
				if _, done := get(ch, 60*time.Millisecond); done {
					fail("timeout0", round, steps, "a block with timeout 0 ended by itself")
					break
				}
				args := []string{"CLIENT", "UNBLOCK", fmt.Sprint(a.ID())}
				if mode != "" {
					args = append(args, mode)
				}
				ur := do(p, args...)
				rr, done := get(ch, 500*time.Millisecond)
				st := append(steps, strings.Join(mk(tmpl, "tk", "0"), " "), strings.Join(args, " "))
				if !done {
					fail("unblock", round, st, "CLIENT UNBLOCK did not end the block")
					break
				}
				if ur != ":1\r\n" {
					fail("unblock", round, st, fmt.Sprintf("CLIENT UNBLOCK of a blocked client answered %q", ur))
					break
				}
				if mode == "ERROR" {
					if !strings.HasPrefix(rr.reply, "-UNBLOCKED") {
						fail("unblock", round, st, fmt.Sprintf("unblocked with ERROR, the client got %q", rr.reply))
						break
					}
				} else if !(rr.reply == "$-1\r\n" || rr.reply == "*-1\r\n") {
					fail("unblock", round, st, fmt.Sprintf("unblocked with TIMEOUT, the client got %q", rr.reply))
					break
				}
				if do(a, "PING") != "+PONG\r\n" {
					fail("reuse", round, st, "connection does not answer PING after CLIENT UNBLOCK")
					break
				}
				stats["unblock_checks"]++
			}
			if failures > 0 {
				break
			}
			// UNBLOCK of a client that is not blocked reports 0 and disturbs nothing
			if ur := do(p, "CLIENT", "UNBLOCK", fmt.Sprint(a.ID())); ur != ":0\r\n" {
				if ur == ":1\r\n" {
					known("D30", "CLIENT UNBLOCK answers 1 for a connection that is not blocked")
				} else {
					fail("unblock", round, nil, fmt.Sprintf("CLIENT UNBLOCK of an idle client answered %q", ur))
				}
			}
			// … and the stale request must not end the client's next block
			ch := async(a, mk(tmpl, "tk", "0.25")...)
			if rr, done := get(ch, 120*time.Millisecond); done {
				fail("unblock", round, []string{"CLIENT UNBLOCK <idle id>", strings.Join(mk(tmpl, "tk", "0.25"), " ")},
					fmt.Sprintf("an earlier CLIENT UNBLOCK of the idle connection ended its next block at once (%q)", rr.reply))
				break
			}
			get(ch, time.Second)
			// UNBLOCK of another client leaves this one blocked
			b := vs.NewClient()
			chA := async(a, mk(tmpl, "tk", "0")...)
			chB := async(b, "BLPOP", "tk2", "0")
			waitBlocked(a, time.Second)
			waitBlocked(b, time.Second)
			do(p, "CLIENT", "UNBLOCK", fmt.Sprint(b.ID()))
			if _, done := get(chB, 500*time.Millisecond); !done {
				fail("unblock", round, nil, "CLIENT UNBLOCK did not end the target's block")
				break
			}
			if _, done := get(chA, 50*time.Millisecond); done {
				fail("unblock", round, nil, "CLIENT UNBLOCK of one client ended another client's block")
				break
			}
			do(p, "CLIENT", "UNBLOCK", fmt.Sprint(a.ID()))
			get(chA, time.Second)
			stats["unblock_target_checks"]++

			// ---- CLIENT UNBLOCK while other connections keep looking at the client (CLIENT LIST reads
			// the blocked flag of every connection): no unblock may get lost
			{
				stop := make(chan struct{})
				var pollers sync.WaitGroup
				for q := 0; q < 2; q++ {
					pollers.Add(1)
					go func() {
						defer pollers.Done()
						pc := vs.NewClient()
						defer pc.Close()
						for {
							select {
							case <-stop:
								return
							default:
								do(pc, "CLIENT", "LIST")
							}
						}
					}()
				}
				// … and the probe CLIENT LIST uses on every connection, at a much higher rate
				for q := 0; q < 2; q++ {
					pollers.Add(1)
					go func() {
						defer pollers.Done()
						for {
							select {
							case <-stop:
								return
							default:
								a.IsBlocked()
							}
						}
					}()
				}
				lost := ""
				for i := 0; i < 25 && lost == ""; i++ {
					ch := async(a, mk(tmpl, "uk", "0")...)
					if !waitBlocked(a, time.Second) {
						lost = "client never became blocked"
						break
					}
					mode := []string{"TIMEOUT", "ERROR"}[i%2]
					do(p, "CLIENT", "UNBLOCK", fmt.Sprint(a.ID()), mode)
					if _, ok := get(ch, 800*time.Millisecond); !ok {
						lost = fmt.Sprintf("CLIENT UNBLOCK %s number %d while two connections run CLIENT LIST in a loop: the client is still blocked 800 ms later", mode, i+1)
						// let it go
						do(p, "RPUSH", "uk", "x")
						get(ch, time.Second)
						do(p, "DEL", "uk", "dst")
					}
					stats["unblock_under_client_list"]++
				}
				close(stop)
				pollers.Wait()
				if lost != "" {
					fail("unblock-under-client-list", round, []string{"A: " + strings.Join(mk(tmpl, "uk", "0"), " "), "Q1, Q2: CLIENT LIST in a loop", "P: CLIENT UNBLOCK <A>"}, lost)
					break
				}
			}

			// ---- unblock arriving between registration and capture (schedule point)
			{
				gate := make(chan struct{})
				parked := make(chan struct{}, 1)
				target := a.ID()
				redisemu.VerifSetPointHook(func(name string, id int64) {
					if id == target && name == "after-register" {
						select {
						case parked <- struct{}{}:
							<-gate
						default:
						}
					}
				})
				ch := async(a, mk(tmpl, "tk", "0")...)
				select {
				case <-parked:
					ur := do(p, "CLIENT", "UNBLOCK", fmt.Sprint(target))
					close(gate)
					if _, done := get(ch, 400*time.Millisecond); !done {
						fail("early-unblock", round, []string{"A: " + strings.Join(mk(tmpl, "tk", "0"), " ") + " (parked after registering for the key)", "P: CLIENT UNBLOCK <A> -> " + strings.TrimSpace(ur), "A: resumes"},
							"a CLIENT UNBLOCK that arrived after the client registered for the key but before it captured its unblock channel was lost: the client stays blocked")
						do(p, "CLIENT", "UNBLOCK", fmt.Sprint(target))
						get(ch, time.Second)
					}
					stats["early_unblock_checks"]++
				case <-time.After(time.Second):
					close(gate)
					get(ch, 100*time.Millisecond)
					do(p, "CLIENT", "UNBLOCK", fmt.Sprint(target))
					get(ch, time.Second)
				}
				redisemu.VerifSetPointHook(nil)
			}

			// ---- unblock arriving after a wake-up that found nothing, before the client waits again
			// (schedule point after the failed retry): it ends the command all the same
			if failures == 0 {
				gate := make(chan struct{})
				parked := make(chan struct{}, 1)
				target := a.ID()
				redisemu.VerifSetPointHook(func(name string, id int64) {
					if id == target && name == "after-failed-retry" {
						select {
						case parked <- struct{}{}:
							<-gate
						default:
						}
					}
				})
				ch := async(a, mk(tmpl, "tk", "0")...)
				if waitBlocked(a, time.Second) {
					time.Sleep(2 * time.Millisecond)
					// push and steal in one transaction: A is woken and finds nothing
					do(p, "MULTI")
					do(p, "RPUSH", "tk", "x")
					do(p, "LPOP", "tk")
					do(p, "EXEC")
					select {
					case <-parked:
						ur := do(p, "CLIENT", "UNBLOCK", fmt.Sprint(target))
						close(gate)
						if _, done := get(ch, 500*time.Millisecond); !done {
							fail("unblock-after-vain-wake", round, []string{"A: " + strings.Join(mk(tmpl, "tk", "0"), " "), "P: MULTI; RPUSH tk x; LPOP tk; EXEC (A is woken in vain, parked before it waits again)", "P: CLIENT UNBLOCK <A> -> " + strings.TrimSpace(ur), "A: resumes"},
								"a CLIENT UNBLOCK that arrived between a wake-up that found nothing and the next wait was lost: the client blocks again")
							do(p, "CLIENT", "UNBLOCK", fmt.Sprint(target))
							get(ch, time.Second)
						}
						stats["unblock_after_vain_wake_checks"]++
					case <-time.After(time.Second):
						close(gate)
						do(p, "CLIENT", "UNBLOCK", fmt.Sprint(target))
						get(ch, time.Second)
					}
				} else {
					do(p, "CLIENT", "UNBLOCK", fmt.Sprint(target))
					get(ch, time.Second)
				}
				redisemu.VerifSetPointHook(nil)
			}

			// ---- an unblocked client stops competing: the unblock and a push in one transaction — the block
			// ends with a null reply and the element stays in the list
			if failures == 0 {
				do(p, "DEL", "tk", "dst")
				ch := async(a, mk(tmpl, "tk", "0")...)
				if waitBlocked(a, time.Second) {
					time.Sleep(2 * time.Millisecond)
					do(p, "MULTI")
					do(p, "CLIENT", "UNBLOCK", fmt.Sprint(a.ID()))
					do(p, "RPUSH", "tk", "x")
					er := do(p, "EXEC")
					ra, done := get(ch, 800*time.Millisecond)
					left := strings.TrimSpace(do(p, "LLEN", "tk"))
					steps := []string{"A: " + strings.Join(mk(tmpl, "tk", "0"), " "), "P: MULTI; CLIENT UNBLOCK <A>; RPUSH tk x; EXEC -> " + strings.TrimSpace(strings.ReplaceAll(er, "\r\n", " "))}
					if !done {
						fail("unblock-then-push", round, steps, "the unblocked client is still blocked 800 ms later")
						do(p, "CLIENT", "UNBLOCK", fmt.Sprint(a.ID()))
						get(ch, time.Second)
					} else if strings.Contains(ra.reply, "x") || left != ":1" {
						fail("unblock-then-push", round, steps, fmt.Sprintf("CLIENT UNBLOCK answered 1 and ended the block, yet the client was served the element pushed afterwards (reply %q, LLEN tk %s): an unblocked client must not compete for later pushes", ra.reply, left))
					}
					stats["unblock_then_push_checks"]++
				} else {
					do(p, "CLIENT", "UNBLOCK", fmt.Sprint(a.ID()))
					get(ch, time.Second)
				}
				do(p, "DEL", "tk", "dst")
			}

			// ---- inside MULTI blocking commands never block
			do(a, "MULTI")
			do(a, mk(tmpl, "tk", "0")...)
			chE := async(a, "EXEC")
			if rr, done := get(chE, 500*time.Millisecond); !done {
				fail("multi", round, []string{"MULTI", strings.Join(mk(tmpl, "tk", "0"), " "), "EXEC"}, "EXEC blocked on a blocking command with nothing to pop")
				do(p, "CLIENT", "UNBLOCK", fmt.Sprint(a.ID()))
				break
			} else if !strings.HasPrefix(rr.reply, "*1\r\n") {
				fail("multi", round, nil, fmt.Sprintf("EXEC answered %q", rr.reply))
				break
			}
			stats["multi_checks"]++
			a.Close()
			b.Close()
			p.Close()
		}

		// ---- a blocked client whose socket is closed stops competing (real sockets)
		if failures == 0 {
			l, _ := net.Listen("tcp", "127.0.0.1:0")
			port := l.Addr().(*net.TCPAddr).Port
			l.Close()
			emu, _ := redisemu.NewEmulator(lane.NewNullLane(context.Background()), port, "127.0.0.1", "", nil)
			emu.Start()
			dial := func() net.Conn {
				for i := 0; i < 50; i++ {
					c, err := net.Dial("tcp", fmt.Sprintf("127.0.0.1:%d", port))
					if err == nil {
						return c
					}
					time.Sleep(10 * time.Millisecond)
				}
				panic("connect")
			}
			enc := func(a ...string) []byte {
				s := fmt.Sprintf("*%d\r\n", len(a))
				for _, x := range a {
					s += fmt.Sprintf("$%d\r\n%s\r\n", len(x), x)
				}
				return []byte(s)
			}
			for i := 0; i < 3 && failures == 0; i++ {
				dead := dial()
				dead.Write(enc("BLPOP", fmt.Sprintf("dq%d", i), "0"))
				time.Sleep(30 * time.Millisecond)
				dead.Close()
				time.Sleep(30 * time.Millisecond)
				live := dial()
				lr := bufio.NewReader(live)
				live.SetDeadline(time.Now().Add(2 * time.Second))
				live.Write(enc("RPUSH", fmt.Sprintf("dq%d", i), "x"))
				lr.ReadString('\n')
				time.Sleep(30 * time.Millisecond)
				live.Write(enc("LLEN", fmt.Sprintf("dq%d", i)))
				line, _ := lr.ReadString('\n')
				if line != ":1\r\n" {
					known("D32", "a client blocked in BLPOP whose socket was closed still consumes the next pushed element (the socket is only read between commands)")
				}
				live.Close()
				stats["closed_socket_checks"]++
			}
			emu.Close()
		}
	}

	res := map[string]any{"stats": stats, "samples": samples, "failures": failures, "wall_s": time.Since(start).Seconds()}
	if *out != "" {
		data, _ := json.MarshalIndent(res, "", " ")
		os.WriteFile(*out, data, 0o644)
	}
	fmt.Printf("block %s %v failures=%d wall=%.1fs\n", *which, stats, failures, time.Since(start).Seconds())
	if failures > 0 {
		os.Exit(1)
	}
}
