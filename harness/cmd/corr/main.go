// corr: correspondence between the Lean model (driver) and the in-process emulator.
// Generates command sequences per family, executes each command on the implementation,
// hands command + implementation reply to the model and compares; the complete state
// (all databases, types, values, deadlines, dirty bits, version changes) is compared
// every few steps. A disagreement is shrunk and written as a replay file.
package main

import (
	"encoding/hex"
	"encoding/json"
	"flag"
	"fmt"
	"os"
	"path/filepath"
	"sort"
	"strconv"
	"strings"
	"sync"
	"time"

	redisemu "github.com/jimsnab/go-redisemu"

	"verif/harness/internal/drv"
	"verif/harness/internal/gen"
)

type Op struct {
	Conn int      `json:"conn"`
	Argv []string `json:"argv_hex"`
	// SleepMs before the op (replays of time-dependent sequences)
	SleepMs int `json:"sleep_ms,omitempty"`
}

type Failure struct {
	Property string   `json:"property"`
	Family   string   `json:"family"`
	Seed     int64    `json:"seed"`
	Seq      int      `json:"sequence"`
	Quirks   string   `json:"quirks"`
	Kind     string   `json:"kind"` // reply | state | hang | harness
	Detail   string   `json:"detail"`
	Step     int      `json:"step"`
	Ops      []Op     `json:"ops"`
	Readable []string `json:"readable"`
	Shrunk   bool     `json:"shrunk"`
}

type Stats struct {
	Steps        int            `json:"steps"`
	Sequences    int            `json:"sequences"`
	Commands     map[string]int `json:"commands"`
	ReplyKinds   map[string]int `json:"reply_kinds"`
	Outcomes     map[string]int `json:"outcomes"`
	Quirks       map[string]int `json:"quirk_hits"`
	Malformed    int            `json:"malformed"`
	StateChecks  int            `json:"state_checks"`
	Distinct     int            `json:"distinct_commands"`
	Samples      [][]string     `json:"samples"`
	distinctSeen map[string]struct{}
}

func newStats() *Stats {
	return &Stats{Commands: map[string]int{}, ReplyKinds: map[string]int{}, Outcomes: map[string]int{},
		Quirks: map[string]int{}, distinctSeen: map[string]struct{}{}}
}

func (s *Stats) merge(o *Stats) {
	s.Steps += o.Steps
	s.Sequences += o.Sequences
	s.Malformed += o.Malformed
	s.StateChecks += o.StateChecks
	for k, v := range o.Commands {
		s.Commands[k] += v
	}
	for k, v := range o.ReplyKinds {
		s.ReplyKinds[k] += v
	}
	for k, v := range o.Outcomes {
		s.Outcomes[k] += v
	}
	for k, v := range o.Quirks {
		s.Quirks[k] += v
	}
	for k := range o.distinctSeen {
		s.distinctSeen[k] = struct{}{}
	}
	if len(s.Samples) < 3 {
		s.Samples = append(s.Samples, o.Samples...)
	}
}

func toOp(conn int, argv []string) Op {
	h := make([]string, len(argv))
	for i, a := range argv {
		h[i] = hex.EncodeToString([]byte(a))
	}
	return Op{Conn: conn, Argv: h}
}

func (o Op) bytes() [][]byte {
	out := make([][]byte, len(o.Argv))
	for i, h := range o.Argv {
		b, _ := hex.DecodeString(h)
		out[i] = b
	}
	return out
}

func readable(o Op) string {
	parts := []string{fmt.Sprintf("@%d", o.Conn)}
	for _, b := range o.bytes() {
		s := string(b)
		if len(s) > 40 {
			s = s[:40] + "…"
		}
		parts = append(parts, fmt.Sprintf("%q", s))
	}
	return strings.Join(parts, " ")
}

type runner struct {
	d       *drv.Driver
	quirks  string
	dumpGap int
	// while a failing sequence is being reduced a command that hangs is given up sooner
	shrinking bool
}

type dispatchResult struct {
	reply []byte
	p     string
}

// run executes ops on a fresh emulator + model; returns the first failure (nil if none)
func (r *runner) run(ops []Op, conns int, st *Stats, live *gen.G, gen1 func() (Op, bool)) (fail *Failure, done []Op) {
	// a persist path makes the pseudo-operation SAVE meaningful: it writes the dirty databases and
	// clears their dirty bits, which the model mirrors, so that every later mutator must set the bit again
	dir, _ := os.MkdirTemp("", "verif-corr-")
	defer os.RemoveAll(dir)
	vs := redisemu.VerifNewStore(dir + "/snap")
	r.d.Reset(r.quirks)
	clients := map[int]*redisemu.VerifClient{}
	defer func() {
		for _, c := range clients {
			c.Close()
		}
	}()
	for c := 1; c <= conns; c++ {
		clients[c] = vs.NewClient()
		r.d.MustAsk(fmt.Sprintf("N %d %d", c, clients[c].ID()))
	}
	// the emulator's locks may be held by a command that went wrong: nothing is called without a watchdog
	guarded := func(what string, step int, f func()) *Failure {
		fin := make(chan struct{})
		go func() { f(); close(fin) }()
		select {
		case <-fin:
			return nil
		case <-time.After(r.hangAfter()):
			return &Failure{Kind: "hang", Detail: fmt.Sprintf("%s did not return within %v: a data store lock is still held after the commands so far", what, r.hangAfter()), Step: step}
		}
	}
	check := func(step int) *Failure {
		var dump string
		if f := guarded("reading the state of the store", step, func() { dump = vs.Dump() }); f != nil {
			return f
		}
		ans := r.d.MustAsk("C " + drv.Hex([]byte(dump)))
		if st != nil {
			st.StateChecks++
		}
		if ans != "ok" {
			return &Failure{Kind: "state", Detail: ans, Step: step}
		}
		return nil
	}
	i := 0
	for {
		var op Op
		if gen1 != nil {
			if live != nil {
				live.WaitSafe()
			}
			var more bool
			op, more = gen1()
			if !more {
				break
			}
		} else {
			if i >= len(ops) {
				break
			}
			op = ops[i]
			if op.SleepMs > 0 {
				time.Sleep(time.Duration(op.SleepMs) * time.Millisecond)
			}
		}
		done = append(done, op)
		argv := op.bytes()
		if len(argv) == 2 && string(argv[0]) == "VERIF-SLEEP" {
			ms, _ := strconv.Atoi(string(argv[1]))
			if ms > 0 && ms <= 500 {
				time.Sleep(time.Duration(ms) * time.Millisecond)
			}
			i++
			continue
		}
		if len(argv) == 1 && string(argv[0]) == "VERIF-SAVE" {
			var err error
			if f := guarded("saving the store", i, func() { err = vs.Save() }); f != nil {
				return f, done
			}
			if err != nil {
				return &Failure{Kind: "harness", Detail: "save failed: " + err.Error(), Step: i}, done
			}
			r.d.MustAsk("V")
			if f := check(i); f != nil {
				return f, done
			}
			i++
			continue
		}
		cl := clients[op.Conn]
		if cl == nil {
			cl = vs.NewClient()
			clients[op.Conn] = cl
			r.d.MustAsk(fmt.Sprintf("N %d %d", op.Conn, cl.ID()))
		}
		ch := make(chan dispatchResult, 1)
		t0 := time.Now().UnixNano()
		go func() {
			reply, p := cl.Dispatch(argv)
			ch <- dispatchResult{reply, p}
		}()
		var res dispatchResult
		select {
		case res = <-ch:
		case <-time.After(r.hangAfter()):
			return &Failure{Kind: "hang", Detail: fmt.Sprintf("command did not return within %v: %s", r.hangAfter(), readable(op)), Step: i}, done
		}
		t1 := time.Now().UnixNano()
		ans := r.d.MustAsk(drv.X(op.Conn, t0, t1, res.reply, res.p != "", argv))
		if st != nil {
			st.Steps++
			name := ""
			if len(argv) > 0 {
				name = strings.ToLower(string(argv[0]))
			}
			st.Commands[name]++
			kind := "panic"
			if res.p == "" && len(res.reply) > 0 {
				kind = string(res.reply[:1])
				if strings.HasPrefix(string(res.reply), "$-1") {
					kind = "nil"
				}
			}
			st.ReplyKinds[kind]++
			key := name + "/" + kind + "/" + fmt.Sprint(len(argv))
			st.distinctSeen[key] = struct{}{}
			head := strings.SplitN(ans, " ", 2)[0]
			st.Outcomes[head]++
			if idx := strings.Index(ans, "quirks="); idx >= 0 {
				for _, q := range strings.Split(strings.Fields(ans[idx+7:])[0], ",") {
					st.Quirks[q]++
				}
			}
		}
		if strings.HasPrefix(ans, "ambig") {
			// a deadline fell inside (or within the known uncertainty of) this step and more than one
			// outcome is consistent with it: the rest of the sequence proves nothing either way
			return nil, done
		}
		if strings.HasPrefix(ans, "DIFF") || strings.HasPrefix(ans, "bad-op") {
			d := ans
			if res.p != "" {
				d += " panic=" + res.p
			}
			return &Failure{Kind: "reply", Detail: d, Step: i}, done
		}
		i++
		if r.dumpGap > 0 && i%r.dumpGap == 0 {
			if f := check(i - 1); f != nil {
				return f, done
			}
		}
	}
	if f := check(i - 1); f != nil {
		return f, done
	}
	return nil, done
}

// shrink: delta debugging on the op list (bounded number of re-runs)
func (r *runner) hangAfter() time.Duration {
	if r.shrinking {
		return 2 * time.Second
	}
	return 10 * time.Second
}

func (r *runner) shrink(ops []Op, conns int) ([]Op, *Failure, bool) {
	budget := 250
	r.shrinking = true
	defer func() { r.shrinking = false }()
	deadline := time.Now().Add(90 * time.Second)
	test := func(cand []Op) *Failure {
		if budget <= 0 || time.Now().After(deadline) {
			return nil
		}
		budget--
		f, _ := r.run(cand, conns, nil, nil, nil)
		return f
	}
	base := test(ops)
	if base == nil {
		return ops, nil, false // does not reproduce from scratch (timing dependent)
	}
	cur := ops
	last := base
	n := 2
	for len(cur) >= 2 && budget > 0 {
		chunk := (len(cur) + n - 1) / n
		reduced := false
		for start := 0; start < len(cur); start += chunk {
			end := start + chunk
			if end > len(cur) {
				end = len(cur)
			}
			cand := append(append([]Op{}, cur[:start]...), cur[end:]...)
			if len(cand) == 0 {
				continue
			}
			if f := test(cand); f != nil {
				cur = cand
				last = f
				if n > 2 {
					n--
				}
				reduced = true
				break
			}
		}
		if !reduced {
			if n >= len(cur) {
				break
			}
			n *= 2
			if n > len(cur) {
				n = len(cur)
			}
		}
	}
	return cur, last, true
}

func main() {
	fam := flag.String("family", "str", "generator family")
	steps := flag.Int("steps", 200, "commands per sequence")
	seqs := flag.Int("seqs", 20, "sequences")
	seed := flag.Int64("seed", 1, "PRNG seed")
	workers := flag.Int("workers", 8, "parallel workers")
	quirks := flag.String("quirks", "current", "quirk set of the model")
	prop := flag.String("property", "C00", "property id for the report")
	out := flag.String("out", "", "stats output (JSON)")
	replayDir := flag.String("replays", "/verif/replays", "directory for replay files")
	replay := flag.String("replay", "", "replay a failure file instead of generating")
	dumpGap := flag.Int("dumpgap", 20, "compare complete state every N steps")
	malformed := flag.Int("malformed", 8, "percent of malformed commands")
	conns := flag.Int("conns", 0, "connections (0: family default)")
	nkeys := flag.Int("keys", 0, "number of key names the generator uses (0: all six)")
	corpus := flag.String("corpus", "", "directory of past minimized failures (<dir>/<family>/*.json): they run first")
	flag.Parse()
	gen.Hash = redisemu.VerifSipHash

	if *replay != "" {
		data, err := os.ReadFile(*replay)
		if err != nil {
			fmt.Println("cannot read replay:", err)
			os.Exit(2)
		}
		var f Failure
		if err := json.Unmarshal(data, &f); err != nil {
			fmt.Println("bad replay file:", err)
			os.Exit(2)
		}
		d, err := drv.Start()
		if err != nil {
			panic(err)
		}
		r := &runner{d: d, quirks: f.Quirks, dumpGap: 1}
		nc := 1
		for _, o := range f.Ops {
			if o.Conn > nc {
				nc = o.Conn
			}
		}
		res, _ := r.run(f.Ops, nc, nil, nil, nil)
		d.Close()
		if res != nil {
			fmt.Printf("replay reproduces: %s at step %d: %s\n", res.Kind, res.Step, res.Detail)
			os.Exit(1)
		}
		fmt.Println("replay passes")
		return
	}

	start := time.Now()
	total := newStats()
	var mu sync.Mutex
	var failures []*Failure
	// the corpus: minimized op sequences on which some earlier version of the code disagreed with the
	// model; they run before anything is generated
	corpusRun := 0
	if *corpus != "" {
		files, _ := filepath.Glob(filepath.Join(*corpus, *fam, "*.json"))
		sort.Strings(files)
		if len(files) > 0 {
			d, err := drv.Start()
			if err != nil {
				panic(err)
			}
			r := &runner{d: d, quirks: *quirks, dumpGap: 1}
			for _, path := range files {
				data, err := os.ReadFile(path)
				if err != nil {
					continue
				}
				var cf Failure
				if json.Unmarshal(data, &cf) != nil || len(cf.Ops) == 0 {
					fmt.Println("corpus: unreadable", path)
					os.Exit(2)
				}
				nc := 1
				for _, o := range cf.Ops {
					if o.Conn > nc {
						nc = o.Conn
					}
				}
				st := newStats()
				st.Sequences = 1
				res, _ := r.run(cf.Ops, nc, st, nil, nil)
				total.merge(st)
				corpusRun++
				if res != nil {
					res.Property, res.Family, res.Seed, res.Quirks = *prop, *fam, *seed, *quirks
					res.Ops, res.Shrunk = cf.Ops, true
					for _, o := range res.Ops {
						res.Readable = append(res.Readable, readable(o))
					}
					res.Detail += " (corpus " + filepath.Base(path) + ")"
					failures = append(failures, res)
					break
				}
			}
			d.Close()
		}
	}
	var wg sync.WaitGroup
	jobs := make(chan int, *seqs)
	for i := 0; i < *seqs; i++ {
		jobs <- i
	}
	close(jobs)
	for w := 0; w < *workers; w++ {
		wg.Add(1)
		go func() {
			defer wg.Done()
			d, err := drv.Start()
			if err != nil {
				panic(err)
			}
			defer d.Close()
			r := &runner{d: d, quirks: *quirks, dumpGap: *dumpGap}
			for seq := range jobs {
				mu.Lock()
				stop := len(failures) > 0
				mu.Unlock()
				if stop {
					return
				}
				g := gen.New(*seed*1000003+int64(seq), *fam)
				g.Malformed = *malformed
				if *nkeys > 0 && *nkeys < len(g.Keys) {
					g.Keys = g.Keys[:*nkeys] // fewer keys: each one gets a longer history
				}
				if *conns > 0 {
					g.Conns = *conns
				}
				st := newStats()
				st.Sequences = 1
				n := 0
				var sample []string
				gen1 := func() (Op, bool) {
					if n >= *steps {
						return Op{}, false
					}
					n++
					conn, argv, mal := g.Next()
					if g.R.Intn(12) == 0 {
						conn, argv, mal = 1, []string{"VERIF-SAVE"}, false
					}
					if mal {
						st.Malformed++
					}
					op := toOp(conn, argv)
					if len(sample) < 12 {
						sample = append(sample, readable(op))
					}
					return op, true
				}
				f, done := r.run(nil, g.Conns, st, g, gen1)
				st.Samples = [][]string{sample}
				mu.Lock()
				total.merge(st)
				mu.Unlock()
				if f != nil {
					f.Property, f.Family, f.Seed, f.Seq, f.Quirks = *prop, *fam, *seed, seq, *quirks
					ops := done
					small, sf, ok := r.shrink(ops, g.Conns)
					if ok && sf != nil {
						f.Ops, f.Shrunk = small, true
						f.Kind, f.Detail, f.Step = sf.Kind, sf.Detail, sf.Step
					} else {
						f.Ops = ops
					}
					for _, o := range f.Ops {
						f.Readable = append(f.Readable, readable(o))
					}
					mu.Lock()
					failures = append(failures, f)
					mu.Unlock()
					return
				}
			}
		}()
	}
	wg.Wait()

	total.Distinct = len(total.distinctSeen)
	result := map[string]any{
		"family": *fam, "seed": *seed, "wall_s": time.Since(start).Seconds(), "stats": total,
		"failures": len(failures), "corpus_sequences": corpusRun,
	}
	var replayPaths []string
	for i, f := range failures {
		os.MkdirAll(*replayDir, 0o755)
		path := fmt.Sprintf("%s/%s-%s-%d-%d.json", *replayDir, *prop, *fam, *seed, i)
		data, _ := json.MarshalIndent(f, "", " ")
		os.WriteFile(path, data, 0o644)
		replayPaths = append(replayPaths, path)
		fmt.Printf("CORR-FAIL property=%s replay=%s kind=%s detail=%s\n", *prop, path, f.Kind, f.Detail)
		for _, l := range f.Readable {
			fmt.Println("   ", l)
		}
	}
	result["replays"] = replayPaths
	if *out != "" {
		data, _ := json.MarshalIndent(result, "", " ")
		os.WriteFile(*out, data, 0o644)
	}
	names := make([]string, 0, len(total.Outcomes))
	for k := range total.Outcomes {
		names = append(names, fmt.Sprintf("%s=%d", k, total.Outcomes[k]))
	}
	sort.Strings(names)
	fmt.Printf("corr family=%s steps=%d seqs=%d (corpus %d) distinct=%d outcomes[%s] quirks=%v wall=%.1fs\n",
		*fam, total.Steps, total.Sequences, corpusRun, total.Distinct, strings.Join(names, " "), total.Quirks, time.Since(start).Seconds())
	if len(failures) > 0 {
		os.Exit(1)
	}
}
