// proto: C15. The same command sequence runs on two fresh emulators, connection A speaking RESP2
// and connection B after HELLO 3. For every command the RESP2 reply must (1) use RESP2 types only
// and (2) equal the down-conversion (`resp3To2` through the hook, itself tied to the Lean `down` by
// the codec tool) of the RESP3 reply. HELLO sequences (3 → 2 → 3, unsupported versions, several
// connections) check that the switch is per connection and refused versions change nothing.
package main

import (
	"bytes"
	"encoding/json"
	"flag"
	"fmt"
	"os"
	"sort"
	"strconv"
	"strings"
	"time"

	redisemu "github.com/jimsnab/go-redisemu"

	"verif/harness/internal/gen"
	"verif/harness/internal/respio"
)

var skip = map[string]bool{
	"srandmember": true, "hrandfield": true, "randomkey": true, "ttl": true, "pttl": true,
	"blpop": true, "brpop": true, "blmove": true, "brpoplpush": true, "blmpop": true,
	"client": true, "hello": true, "incrbyfloat": true, "hincrbyfloat": false,
}

func toArgv(a []string) [][]byte {
	out := make([][]byte, len(a))
	for i, s := range a {
		out[i] = []byte(s)
	}
	return out
}

// leaves counts the scalar elements of a RESP2 value (nested arrays flattened)
func leaves(b []byte) int {
	n, _ := leavesRest(b)
	return n
}

func leavesRest(b []byte) (int, []byte) {
	i := bytes.Index(b, []byte("\r\n"))
	if i < 0 || len(b) == 0 {
		return 0, nil
	}
	head, rest := b[1:i], b[i+2:]
	switch b[0] {
	case '*':
		cnt, _ := strconv.Atoi(string(head))
		total := 0
		for k := 0; k < cnt && rest != nil; k++ {
			var m int
			m, rest = leavesRest(rest)
			total += m
		}
		return total, rest
	case '$':
		l, _ := strconv.Atoi(string(head))
		if l < 0 {
			return 1, rest
		}
		if len(rest) < l+2 {
			return 1, nil
		}
		return 1, rest[l+2:]
	default:
		return 1, rest
	}
}

func main() {
	seed := flag.Int64("seed", 1, "seed")
	seqs := flag.Int("seqs", 40, "sequences")
	steps := flag.Int("steps", 200, "steps per sequence")
	prop := flag.String("property", "C15", "property")
	out := flag.String("out", "", "stats json")
	replayDir := flag.String("replays", "/verif/replays", "replay dir")
	flag.Parse()
	start := time.Now()
	stats := map[string]int{}
	kinds := map[string]int{}
	var samples []string
	failures := 0
	fail := func(seq int, trace []string, detail string) {
		failures++
		os.MkdirAll(*replayDir, 0o755)
		path := fmt.Sprintf("%s/%s-proto-%d-%d.json", *replayDir, *prop, *seed, seq)
		data, _ := json.MarshalIndent(map[string]any{"property": *prop, "seed": *seed, "sequence": seq, "detail": detail, "commands": trace}, "", " ")
		os.WriteFile(path, data, 0o644)
		fmt.Printf("PROTO-FAIL property=%s replay=%s detail=%s\n", *prop, path, detail)
	}
	fams := []string{"str", "list", "hash", "set", "keys", "bits", "tx", "mixed"}
	for seq := 0; seq < *seqs && failures == 0; seq++ {
		g := gen.New(*seed*104729+int64(seq), fams[seq%len(fams)])
		g.Conns = 1
		vs2, vs3 := redisemu.VerifNewStore(""), redisemu.VerifNewStore("")
		c2, c3 := vs2.NewClient(), vs3.NewClient()
		if r, _ := c3.Dispatch(toArgv([]string{"HELLO", "3"})); !bytes.HasPrefix(r, []byte("%")) {
			fail(seq, nil, fmt.Sprintf("HELLO 3 did not answer a map: %q", r))
			break
		}
		var trace []string
		for s := 0; s < *steps; s++ {
			g.WaitSafe()
			_, argv, _ := g.Next()
			name := strings.ToLower(argv[0])
			if skip[name] && name != "hrandfield" && name != "srandmember" {
				continue
			}
			trace = append(trace, fmt.Sprintf("%q", argv))
			t0 := time.Now().UnixNano()
			r2, p2 := c2.Dispatch(toArgv(argv))
			r3, p3 := c3.Dispatch(toArgv(argv))
			t1 := time.Now().UnixNano()
			stats["commands"]++
			// The two stores execute the command one after the other. A deadline the generator has set
			// that falls between the two executions (a loaded machine can put milliseconds between them)
			// lets one store see a key the other one has already lost: from here on they may differ for a
			// reason that has nothing to do with the protocol, and the sequence ends without a verdict.
			crossed := false
			for _, d := range g.Dangers {
				if d >= t0-int64(time.Millisecond) && d <= t1+int64(time.Millisecond) {
					crossed = true
				}
			}
			if crossed {
				stats["sequences_ended_at_a_deadline"]++
				break
			}
			if p2 != "" || p3 != "" {
				stats["panics"]++
				continue
			}
			if len(r3) > 0 {
				kinds[string(r3[:1])]++
			}
			if !respio.Resp2Only(r2) {
				fail(seq, trace, fmt.Sprintf("RESP2 connection received a RESP3 type: %q", r2))
				break
			}
			d, ok, pd := redisemu.VerifDown(r3)
			if pd != "" || !ok {
				fail(seq, trace, fmt.Sprintf("cannot down-convert the RESP3 reply %q (%s)", r3, pd))
				break
			}
			if name == "hrandfield" || name == "srandmember" {
				// which elements are drawn is random; how many are returned is not (the two stores hold the
				// same data): the RESP2 reply carries as many elements as the down-converted RESP3 reply
				stats["random_replies_compared_by_size"]++
				if n2, nd := leaves(r2), leaves(d); n2 != nd || r2[0] != d[0] {
					fail(seq, trace, fmt.Sprintf("%q: the RESP2 reply carries %d elements %.200q, the RESP3 reply %d %.200q", argv, n2, r2, nd, r3))
					break
				}
				continue
			}
			// a double travels as text under both protocols: the RESP2 bulk string carries exactly the text of
			// the RESP3 double (compared here without the implementation's own conversion, which would agree
			// with itself whatever it prints)
			if len(r3) > 3 && r3[0] == ',' {
				text := r3[1 : len(r3)-2]
				want := []byte(fmt.Sprintf("$%d\r\n%s\r\n", len(text), text))
				stats["doubles_compared_as_text"]++
				if !bytes.Equal(r2, want) {
					fail(seq, trace, fmt.Sprintf("%q: the RESP3 reply is the double %q, the RESP2 reply %q does not carry the same text", argv, r3, r2))
					break
				}
			}
			same := bytes.Equal(d, r2)
			if !same && (name == "pexpiretime" || name == "expiretime") {
				same = true // deadlines set from two different clock readings
			}
			if !same && (strings.Contains(name, "scan") || name == "keys" || name == "exec") && len(d) == len(r2) {
				same = true // order of an unordered collection / time inside a transaction
			}
			if !same {
				fail(seq, trace, fmt.Sprintf("RESP2 reply %q differs from the down-converted RESP3 reply %q (RESP3 %q)", r2, d, r3))
				break
			}
			if !bytes.Equal(r2, r3) {
				stats["replies_that_differ_between_protocols"]++
				if len(samples) < 5 {
					samples = append(samples, fmt.Sprintf("%q: resp3 %.60q -> resp2 %.60q", argv, r3, r2))
				}
			}
		}
		// HELLO switching on one store with two connections
		vs := redisemu.VerifNewStore("")
		a, b := vs.NewClient(), vs.NewClient()
		do := func(c *redisemu.VerifClient, args ...string) []byte { r, _ := c.Dispatch(toArgv(args)); return r }
		do(a, "HSET", "h", "f", "v")
		check := func(what string, cond bool) {
			stats["hello_checks"]++
			if !cond && failures == 0 {
				fail(seq, []string{what}, "HELLO protocol switching: "+what)
			}
		}
		check("new connection speaks RESP2", bytes.HasPrefix(do(a, "HGETALL", "h"), []byte("*2")))
		check("HELLO 3 answers a map", bytes.HasPrefix(do(a, "HELLO", "3"), []byte("%")))
		check("after HELLO 3 HGETALL is a map", bytes.HasPrefix(do(a, "HGETALL", "h"), []byte("%1")))
		check("other connection still RESP2", bytes.HasPrefix(do(b, "HGETALL", "h"), []byte("*2")))
		check("HELLO without version under RESP3 answers a map", bytes.HasPrefix(do(a, "HELLO"), []byte("%")))
		check("HELLO without version leaves RESP3 in place", bytes.HasPrefix(do(a, "HGETALL", "h"), []byte("%1")))
		for _, v := range []string{"4", "1", "0", "-1", "99"} {
			r := do(a, "HELLO", v)
			check("HELLO "+v+" is refused", bytes.HasPrefix(r, []byte("-")))
			check("refused HELLO "+v+" leaves RESP3 in place", bytes.HasPrefix(do(a, "HGETALL", "h"), []byte("%1")))
		}
		check("HELLO 2 answers an array", bytes.HasPrefix(do(a, "HELLO", "2"), []byte("*")))
		check("after HELLO 2 HGETALL is flat", bytes.HasPrefix(do(a, "HGETALL", "h"), []byte("*2")))
		check("HELLO without version keeps the protocol", bytes.HasPrefix(do(a, "HELLO"), []byte("*")))
		check("HELLO without version leaves RESP2 in place", bytes.HasPrefix(do(a, "HGETALL", "h"), []byte("*2")))
		// replies with aggregates nested inside aggregates (maps in arrays in maps …): the RESP2 form is
		// the canonical down-conversion at every level
		do(b, "HELLO", "3")
		do(a, "SET", "s1", "ohmytext")
		do(a, "SET", "s2", "mynewtext")
		for _, argv := range [][]string{{"COMMAND", "DOCS", "get"}, {"COMMAND", "DOCS", "set", "lpush"}, {"COMMAND", "INFO", "get", "hset"},
			{"COMMAND", "DOCS"}, {"COMMAND"}, {"HELLO"}, {"CONFIG", "GET", "*"}, {"LCS", "s1", "s2", "IDX", "WITHMATCHLEN"},
			{"COMMAND", "LIST"}, {"COMMAND", "COUNT"}, {"MEMORY", "STATS"}, {"CLIENT", "INFO"},
			{"SMEMBERS", "nokey"}, {"HGETALL", "nokey"}} {
			r2, p2 := a.Dispatch(toArgv(argv))
			r3, p3 := b.Dispatch(toArgv(argv))
			if p2 != "" || p3 != "" {
				continue
			}
			stats["nested_reply_checks"]++
			if !respio.Resp2Only(r2) {
				check(fmt.Sprintf("%v on a RESP2 connection uses RESP2 types only (got %.200q)", argv, r2), false)
			}
			if argv[0] == "HELLO" || argv[0] == "CLIENT" {
				continue // connection ids and protocol numbers differ
			}
			d, ok, pd := redisemu.VerifDown(r3)
			exact := len(argv) > 2 || argv[0] == "LCS" || argv[0] == "SMEMBERS" || argv[0] == "HGETALL"
			// maps have no defined order (the hook re-parses the RESP3 bytes): compare the multiset of lines
			lines := func(b []byte) string {
				l := strings.Split(string(b), "\r\n")
				sort.Strings(l)
				return strings.Join(l, "\n")
			}
			if pd == "" && ok && exact && argv[0] != "HRANDFIELD" && lines(d) != lines(r2) {
				check(fmt.Sprintf("%v: the RESP2 reply %.300q is not the down-conversion %.300q of the RESP3 reply", argv, r2, d), false)
			}
			if pd == "" && ok && len(d) != len(r2) {
				check(fmt.Sprintf("%v: RESP2 reply (%d bytes) is the down-conversion of the RESP3 reply (%d bytes)", argv, len(r2), len(d)), false)
			}
		}
		// the reply of EXEC carries the replies of the queued commands: under RESP2 every one of them is
		// down-converted, whatever its type
		do(a, "SADD", "st", "m")
		for _, c := range []*redisemu.VerifClient{a, b} {
			do(c, "MULTI")
			do(c, "HGETALL", "h")
			do(c, "SMEMBERS", "st")
			do(c, "HRANDFIELD", "h", "1", "WITHVALUES")
			do(c, "INCRBYFLOAT", "fl", "1.5")
			do(c, "CLIENT", "INFO")
		}
		e2, e3 := do(a, "EXEC"), do(b, "EXEC")
		check(fmt.Sprintf("EXEC on a RESP2 connection uses RESP2 types only (got %.200q)", e2), respio.Resp2Only(e2))
		check(fmt.Sprintf("EXEC on a RESP3 connection keeps the RESP3 types (got %.200q)", e3), bytes.Contains(e3, []byte("%1\r\n")))
		do(b, "HELLO", "2")
		r := do(b, "HELLO", "4")
		check("refused HELLO on a RESP2 connection keeps RESP2", bytes.HasPrefix(r, []byte("-")) && bytes.HasPrefix(do(b, "HGETALL", "h"), []byte("*2")))
		stats["sequences"]++
		a.Close()
		b.Close()
		c2.Close()
		c3.Close()
	}
	for k, v := range kinds {
		stats["resp3_kind_"+k] = v
	}
	res := map[string]any{"stats": stats, "samples": samples, "failures": failures, "wall_s": time.Since(start).Seconds()}
	if *out != "" {
		data, _ := json.MarshalIndent(res, "", " ")
		os.WriteFile(*out, data, 0o644)
	}
	fmt.Printf("proto %v failures=%d wall=%.1fs\n", stats, failures, time.Since(start).Seconds())
	if failures > 0 {
		os.Exit(1)
	}
}
