module verif/tools/go2lean

go 1.22
