// go2lean: a translator (go/ast, standard library only) from a small pure subset of Go to Lean 4.
// It is run on /repo's working tree before every Lean build and writes lean/RedisEmu/GoArith.lean, so the
// theorems about these definitions (Props/C18.lean, Props/C02.lean, Props/C04.lean) are re-checked against
// what the code says now: a change to one of the translated functions changes the Lean definition and the
// proof obligation about it has to be discharged again.
//
// Subset: functions whose parameters and results are int, int64, uint64, uint32, uint8/byte or bool and
// whose bodies consist of `:=`, `=`, `op=`, `var`, `if / else`, `return` over literals, identifiers,
// unary - ^ !, binary + - * & | ^ &^ << >> == != < <= > >= && ||, conversions between the integer types
// and calls of other translated functions. Anything else is an error (the check then reports that the
// function can no longer be translated). No loops, no memory.
//
// Semantics of the translation (the trusted part, kept small):
//
//	int, int64, uint64 -> BitVec 64   uint32 -> BitVec 32   uint8, byte -> BitVec 8   bool -> Bool
//	(int is 64 bits wide: GOARCH amd64 / arm64)
//	+ - * unary- and the bitwise operators are the BitVec operations (Go integer arithmetic wraps)
//	x << n, x >> n: BitVec shift by n.toNat, >> arithmetic for signed x and logical for unsigned x
//	  (Go: a shift count of the operand's width or more gives 0, or -1 for a negative signed x under >>,
//	  which is what BitVec.shiftLeft / ushiftRight / sshiftRight do; a NEGATIVE signed count panics in
//	  Go and is a large count here — the theorems only use counts in 0..64)
//	comparisons: BitVec.slt / sle for the signed types, ult / ule for the unsigned ones
//	T(x): same width -> x; narrower T -> truncation (setWidth); wider T -> zero extension for an
//	  unsigned x, sign extension for a signed x
//	statements: `x := e; rest` -> `let x := e; rest`; an `if` that does not return on every path is
//	  translated by copying the statements that follow it into both branches
//
// Besides whole functions the tool extracts *guards*: the condition of the `if` statement whose body
// assigns a given constant (VALUE_OVERFLOW), with the local definitions it depends on inlined, as a Lean
// function of the free variables named in the configuration below.
package main

import (
	"fmt"
	"go/ast"
	"go/parser"
	"go/token"
	"os"
	"path/filepath"
	"sort"
	"strconv"
	"strings"
)

type ty struct {
	name   string // Go name
	width  int    // 0 = bool
	signed bool
}

var types = map[string]ty{
	"int": {"int", 64, true}, "int64": {"int64", 64, true}, "uint64": {"uint64", 64, false},
	"uint32": {"uint32", 32, false}, "uint8": {"uint8", 8, false}, "byte": {"uint8", 8, false},
	"bool": {"bool", 0, false},
}
var untyped = ty{"untyped", -1, true}

func (t ty) lean() string {
	if t.width == 0 {
		return "Bool"
	}
	return fmt.Sprintf("BitVec %d", t.width)
}

// ---------------------------------------------------------------- configuration (hand-written expectations)

// whole functions, in dependency order
var wholeFuncs = []string{"isSignedSumOverflow", "isUnsignedOverflow", "saturateValue", "signExtend", "isPowerOfTwo", "redisDict.hashToIndex"}

// externals: a call of one of these functions (a table look-up the subset cannot express) becomes an extra
// parameter of the translated function; what it is assumed to return is stated in the theorem about the function
// (bitPosition(2^k) = k)
var externals = map[string]struct {
	param string
	t     string
}{"bitPosition": {"bitPos", "int"}}

type guardSpec struct {
	fn, recv string // function (method) name
	constant string // the guarded body assigns this identifier
	leanName string
	vars     []string // free variables, in parameter order
	varTypes []string
	alias    map[string]string // `len(value)` -> a free variable
}

// methods that only read and write integer fields of their receiver: translated as functions from the
// fields to the tuple of the fields
type fieldMethodSpec struct {
	recv, fn, leanName string
	fields, fieldTypes []string
}

var fieldMethods = []fieldMethodSpec{
	{"sipHash", "round", "sipRound", []string{"v0", "v1", "v2", "v3"}, []string{"uint64", "uint64", "uint64", "uint64"}},
}

// regions: the statements of the block that starts with `<first> := len(…)`, up to (not including) the first
// statement that assigns to a selector (output.data = …), as a function of the named integer variables to
// the tuple of the variables listed in `results`. `len(x)` is the free variable named in lenVar.
type regionSpec struct {
	fn, leanName   string
	lenVar         string
	vars, varTypes []string
	results        []string
	// alternatively the region is delimited by comments: the statements of one block that follow the comment
	// containing `from`, up to the comment containing `to` (or the first loop); `alias` names selector
	// expressions that stand for a free variable (list.count -> count)
	from, to string
	alias    map[string]string
	// untilIfOn: the region ends before the first `if <ident> {` on this identifier.
	// early: a block `output.data = …; return` inside the region is an early exit: the result gets a leading
	// Bool (true = left early; the other components are the values at that point)
	untilIfOn string
	early     bool
	// defsOf: the region is the top-level `v := e` statements of the function that define these variables
	defsOf []string
}

var regions = []regionSpec{
	{fn: "fnGetRange", leanName: "getRangeClamp", lenVar: "n", vars: []string{"start", "end", "n"}, varTypes: []string{"int", "int", "int"}, results: []string{"start", "end"}},
	{fn: "dataStoreCommand.lrange", leanName: "lrangeClamp", from: "convert negative indexes", to: "find the start item",
		vars: []string{"start", "stop", "count"}, varTypes: []string{"int", "int", "int"}, results: []string{"start", "stop"}, alias: map[string]string{"list.count": "count"}},
	{fn: "fnBitCount", leanName: "bitcountClamp", from: "right side indexing", untilIfOn: "bitMode", early: true,
		vars: []string{"start", "end", "length"}, varTypes: []string{"int", "int", "int"}, results: []string{"start", "end"}},
	{fn: "countSetBitRange", leanName: "bitcountMasks", defsOf: []string{"startMask", "endMask"},
		vars: []string{"start", "end"}, varTypes: []string{"int", "int"}, results: []string{"startMask", "endMask"}},
	{fn: "dataStoreCommand.ltrim", leanName: "ltrimClamp", from: "convert negative list position args", to: "",
		vars: []string{"start", "stop", "count"}, varTypes: []string{"int", "int", "int"}, results: []string{"start", "stop"}, alias: map[string]string{"list.count": "count"}},
}

var guards = []guardSpec{
	{"addInt", "dataStoreCommand", "VALUE_OVERFLOW", "addIntOverflowGuard", []string{"value", "delta"}, []string{"int64", "int64"}, nil},
	{"fieldAddInt", "dataStoreCommand", "VALUE_OVERFLOW", "fieldAddIntOverflowGuard", []string{"oldInt", "delta"}, []string{"int64", "int64"}, nil},
	{"fnSetBit", "", "\"bit offset is not an integer or out of range\"", "setbitOffsetGuard", []string{"offset64"}, []string{"int64"}, nil},
	{"fnSetRange", "", "\"string exceeds maximum allowed size\"", "setrangeSizeGuard", []string{"offset", "vlen"}, []string{"int64", "int"},
		map[string]string{"len(value)": "vlen"}},
}

// ---------------------------------------------------------------- translation

type env struct {
	usedExt map[string]bool   // externals called
	alias   map[string]string // selector expressions read as free variables
	tuple   string            // what a field method "returns": the tuple of its fields
	early   string            // region with early exits: the tuple of a `output.data = …; return` block
	recv    string            // receiver name of a field method ("" otherwise): recv.f reads and writes the field f
	vars    map[string]ty
	funcs   map[string]*sig
	result  ty
	resName string // named result ("" if none)
}

type sig struct {
	params []ty
	result ty
}

type terr struct{ msg string }

func fail(pos token.Pos, fset *token.FileSet, f string, a ...any) {
	panic(terr{fmt.Sprintf("%s: %s", fset.Position(pos), fmt.Sprintf(f, a...))})
}

var fset = token.NewFileSet()

func typeOfExpr(e ast.Expr) (ty, bool) {
	if id, ok := e.(*ast.Ident); ok {
		t, ok := types[id.Name]
		return t, ok
	}
	return ty{}, false
}

func lit(v string, t ty, pos token.Pos) string {
	n, err := strconv.ParseUint(v, 0, 64)
	if err != nil {
		fail(pos, fset, "literal %s", v)
	}
	if t.width <= 0 {
		fail(pos, fset, "literal %s without an integer type", v)
	}
	return fmt.Sprintf("%d#%d", n, t.width)
}

// constVal evaluates an integer constant expression made of literals (64-13, 1<<3, …)
func constVal(e ast.Expr) (uint64, bool) {
	switch x := e.(type) {
	case *ast.ParenExpr:
		return constVal(x.X)
	case *ast.BasicLit:
		if x.Kind != token.INT {
			return 0, false
		}
		n, err := strconv.ParseUint(x.Value, 0, 64)
		return n, err == nil
	case *ast.BinaryExpr:
		a, ok1 := constVal(x.X)
		b, ok2 := constVal(x.Y)
		if !ok1 || !ok2 {
			return 0, false
		}
		switch x.Op {
		case token.ADD:
			return a + b, true
		case token.SUB:
			if b > a {
				return 0, false
			}
			return a - b, true
		case token.MUL:
			return a * b, true
		case token.SHL:
			if b > 63 {
				return 0, false
			}
			return a << b, true
		}
	}
	return 0, false
}

// expr translates e; want is the type an untyped constant should take (untyped if unknown)
func (ev *env) expr(e ast.Expr, want ty) (string, ty) {
	if _, isLit := e.(*ast.BasicLit); !isLit {
		if v, ok := constVal(e); ok {
			return ev.expr(&ast.BasicLit{Kind: token.INT, Value: strconv.FormatUint(v, 10), ValuePos: e.Pos()}, want)
		}
	}
	switch x := e.(type) {
	case *ast.ParenExpr:
		s, t := ev.expr(x.X, want)
		return s, t
	case *ast.BasicLit:
		if x.Kind != token.INT {
			fail(x.Pos(), fset, "literal kind %v", x.Kind)
		}
		if want.width <= 0 {
			return "\x00" + x.Value, untyped // resolved by the caller
		}
		return lit(x.Value, want, x.Pos()), want
	case *ast.SelectorExpr:
		if id, ok := x.X.(*ast.Ident); ok && ev.alias != nil {
			if v, ok := ev.alias[id.Name+"."+x.Sel.Name]; ok {
				return ln(v), ev.vars[v]
			}
		}
		if id, ok := x.X.(*ast.Ident); ok && ev.recv != "" && id.Name == ev.recv {
			t, ok := ev.vars[x.Sel.Name]
			if !ok {
				fail(x.Pos(), fset, "field %s is not among the translated fields", x.Sel.Name)
			}
			return ln(x.Sel.Name), t
		}
		fail(x.Pos(), fset, "selector expression")
	case *ast.Ident:
		if x.Name == "true" || x.Name == "false" {
			return x.Name, types["bool"]
		}
		t, ok := ev.vars[x.Name]
		if !ok {
			fail(x.Pos(), fset, "unknown identifier %s", x.Name)
		}
		return ln(x.Name), t
	case *ast.UnaryExpr:
		s, t := ev.expr(x.X, want)
		s = ev.resolve(s, t, want, x.Pos())
		if t == untyped {
			t = want
		}
		switch x.Op {
		case token.SUB:
			return "(-" + s + ")", t
		case token.XOR:
			return "(~~~" + s + ")", t
		case token.NOT:
			return "(!" + s + ")", t
		case token.ADD:
			return s, t
		}
		fail(x.Pos(), fset, "unary %v", x.Op)
	case *ast.CallExpr:
		if t, ok := typeOfExpr(x.Fun); ok && len(x.Args) == 1 { // conversion
			s, from := ev.expr(x.Args[0], t)
			if from == untyped {
				return ev.resolve(s, from, t, x.Pos()), t
			}
			if from.width == 0 || t.width == 0 {
				fail(x.Pos(), fset, "conversion involving bool")
			}
			switch {
			case from.width == t.width:
				return s, t
			case from.width > t.width:
				return fmt.Sprintf("(%s.setWidth %d)", s, t.width), t
			case from.signed:
				return fmt.Sprintf("(%s.signExtend %d)", s, t.width), t
			default:
				return fmt.Sprintf("(%s.setWidth %d)", s, t.width), t
			}
		}
		if sel, ok := x.Fun.(*ast.SelectorExpr); ok {
			if pkg, ok := sel.X.(*ast.Ident); ok && pkg.Name == "bits" && sel.Sel.Name == "Reverse32" && len(x.Args) == 1 {
				a, t := ev.expr(x.Args[0], types["uint32"])
				a = ev.resolve(a, t, types["uint32"], x.Pos())
				return "(BitVec.reverse " + a + ")", types["uint32"]
			}
		}
		if id, ok := x.Fun.(*ast.Ident); ok && id.Name == "len" && len(x.Args) == 1 {
			if a, isId := x.Args[0].(*ast.Ident); isId {
				if v, has := ev.alias["len("+a.Name+")"]; has {
					return ln(v), ev.vars[v]
				}
			}
		}
		if id, ok := x.Fun.(*ast.Ident); ok {
			if ext, isExt := externals[id.Name]; isExt {
				ev.usedExt[id.Name] = true
				return ln(ext.param), types[ext.t]
			}
			sg, ok := ev.funcs[id.Name]
			if !ok {
				fail(x.Pos(), fset, "call of %s, which is not translated", id.Name)
			}
			if len(sg.params) != len(x.Args) {
				fail(x.Pos(), fset, "arity of %s", id.Name)
			}
			parts := []string{id.Name}
			for i, a := range x.Args {
				s, t := ev.expr(a, sg.params[i])
				s = ev.resolve(s, t, sg.params[i], a.Pos())
				parts = append(parts, s)
			}
			return "(" + strings.Join(parts, " ") + ")", sg.result
		}
		fail(x.Pos(), fset, "call form")
	case *ast.BinaryExpr:
		switch x.Op {
		case token.LAND, token.LOR:
			l, _ := ev.expr(x.X, types["bool"])
			r, _ := ev.expr(x.Y, types["bool"])
			op := "&&"
			if x.Op == token.LOR {
				op = "||"
			}
			return fmt.Sprintf("(%s %s %s)", l, op, r), types["bool"]
		case token.SHL, token.SHR:
			l, lt := ev.expr(x.X, want)
			l = ev.resolve(l, lt, want, x.Pos())
			if lt == untyped {
				lt = want
			}
			r, rt := ev.expr(x.Y, types["int"])
			r = ev.resolve(r, rt, types["int"], x.Pos())
			if x.Op == token.SHL {
				return fmt.Sprintf("(%s <<< (%s).toNat)", l, r), lt
			}
			if lt.signed {
				return fmt.Sprintf("(BitVec.sshiftRight %s (%s).toNat)", l, r), lt
			}
			return fmt.Sprintf("(%s >>> (%s).toNat)", l, r), lt
		}
		// both operands have one type; an untyped side takes the other's
		l, lt := ev.expr(x.X, untyped)
		r, rt := ev.expr(x.Y, untyped)
		t := lt
		if t == untyped {
			t = rt
		}
		cmp := map[token.Token]bool{token.EQL: true, token.NEQ: true, token.LSS: true, token.LEQ: true, token.GTR: true, token.GEQ: true}[x.Op]
		if t == untyped {
			if cmp {
				fail(x.Pos(), fset, "comparison of two untyped constants")
			}
			t = want
		}
		l = ev.resolve(l, lt, t, x.Pos())
		r = ev.resolve(r, rt, t, x.Pos())
		if lt != untyped && rt != untyped && lt != rt {
			fail(x.Pos(), fset, "operand types %s and %s", lt.name, rt.name)
		}
		if cmp {
			if t.width == 0 {
				switch x.Op {
				case token.EQL:
					return fmt.Sprintf("(%s == %s)", l, r), types["bool"]
				case token.NEQ:
					return fmt.Sprintf("(%s != %s)", l, r), types["bool"]
				}
				fail(x.Pos(), fset, "ordering of booleans")
			}
			lt_, le_ := "BitVec.ult", "BitVec.ule"
			if t.signed {
				lt_, le_ = "BitVec.slt", "BitVec.sle"
			}
			switch x.Op {
			case token.EQL:
				return fmt.Sprintf("(%s == %s)", l, r), types["bool"]
			case token.NEQ:
				return fmt.Sprintf("(%s != %s)", l, r), types["bool"]
			case token.LSS:
				return fmt.Sprintf("(%s %s %s)", lt_, l, r), types["bool"]
			case token.LEQ:
				return fmt.Sprintf("(%s %s %s)", le_, l, r), types["bool"]
			case token.GTR:
				return fmt.Sprintf("(%s %s %s)", lt_, r, l), types["bool"]
			case token.GEQ:
				return fmt.Sprintf("(%s %s %s)", le_, r, l), types["bool"]
			}
		}
		if t.width == 0 {
			fail(x.Pos(), fset, "arithmetic on booleans")
		}
		ops := map[token.Token]string{token.ADD: "+", token.SUB: "-", token.MUL: "*", token.AND: "&&&", token.OR: "|||", token.XOR: "^^^"}
		if op, ok := ops[x.Op]; ok {
			return fmt.Sprintf("(%s %s %s)", l, op, r), t
		}
		if x.Op == token.AND_NOT {
			return fmt.Sprintf("(%s &&& ~~~%s)", l, r), t
		}
		// Go's integer division truncates toward zero and the remainder takes the sign of the dividend: sdiv / srem
		// (a zero divisor panics in Go; not modelled — the divisors translated so far are non-zero constants)
		if x.Op == token.QUO || x.Op == token.REM {
			if _, isConst := constVal(x.Y); !isConst {
				fail(x.Pos(), fset, "division by a non-constant")
			}
			switch {
			case x.Op == token.QUO && t.signed:
				return fmt.Sprintf("(BitVec.sdiv %s %s)", l, r), t
			case x.Op == token.REM && t.signed:
				return fmt.Sprintf("(BitVec.srem %s %s)", l, r), t
			case x.Op == token.QUO:
				return fmt.Sprintf("(%s / %s)", l, r), t
			default:
				return fmt.Sprintf("(%s %% %s)", l, r), t
			}
		}
		fail(x.Pos(), fset, "binary %v (division and remainder are not in the subset)", x.Op)
	}
	fail(e.Pos(), fset, "expression form %T", e)
	return "", ty{}
}

// resolve gives a pending untyped literal its type
func (ev *env) resolve(s string, t, want ty, pos token.Pos) string {
	if t != untyped {
		return s
	}
	if strings.HasPrefix(s, "\x00") {
		return lit(s[1:], want, pos)
	}
	if strings.Contains(s, "\x00") {
		fail(pos, fset, "untyped constant expression")
	}
	return s
}

// ln: a Go identifier as a Lean identifier (Lean keywords get a trailing underscore)
func ln(name string) string {
	switch name {
	case "end", "at", "then", "else", "fun", "do", "in", "let", "have", "show", "match", "with", "if", "open", "where",
		"Type", "Prop", "by", "from", "instance", "def", "theorem", "namespace", "section", "variable", "import", "mutual":
		return name + "_"
	}
	return name
}

func indent(n int) string { return strings.Repeat("  ", n) }

// block translates stmts followed by rest (statements that follow the enclosing `if`)
func (ev *env) block(stmts []ast.Stmt, depth int) string {
	if len(stmts) == 0 {
		if ev.tuple != "" {
			return ev.tuple
		}
		if ev.resName != "" {
			return ev.resName
		}
		panic(terr{"control reaches the end of a function without a return"})
	}
	s, rest := stmts[0], stmts[1:]
	in := indent(depth)
	switch x := s.(type) {
	case *ast.ReturnStmt:
		if len(x.Results) == 0 && ev.early != "" {
			return ev.early
		}
		if len(x.Results) == 0 {
			if ev.resName == "" {
				fail(x.Pos(), fset, "bare return")
			}
			return ev.resName
		}
		if len(x.Results) != 1 {
			fail(x.Pos(), fset, "several results")
		}
		r, t := ev.expr(x.Results[0], ev.result)
		return ev.resolve(r, t, ev.result, x.Pos())
	case *ast.DeclStmt:
		gd := x.Decl.(*ast.GenDecl)
		out := ""
		for _, sp := range gd.Specs {
			vs := sp.(*ast.ValueSpec)
			t, ok := typeOfExpr(vs.Type)
			if !ok || len(vs.Values) != 0 {
				fail(x.Pos(), fset, "var form")
			}
			for _, n := range vs.Names {
				ev.vars[n.Name] = t
				z := "false"
				if t.width > 0 {
					z = fmt.Sprintf("0#%d", t.width)
				}
				out += fmt.Sprintf("let %s : %s := %s\n%s", ln(n.Name), t.lean(), z, in)
			}
		}
		return out + ev.block(rest, depth)
	case *ast.AssignStmt:
		if len(x.Lhs) != 1 || len(x.Rhs) != 1 {
			fail(x.Pos(), fset, "multiple assignment")
		}
		id, ok := x.Lhs[0].(*ast.Ident)
		if sel, isSel := x.Lhs[0].(*ast.SelectorExpr); isSel && ev.early != "" {
			// `output.data = …` directly before the `return` of an early exit: the reply is not part of the arithmetic
			if r, isId := sel.X.(*ast.Ident); isId && r.Name == "output" && len(rest) >= 1 {
				if rs, isRet := rest[0].(*ast.ReturnStmt); isRet && len(rs.Results) == 0 {
					return ev.early
				}
			}
		}
		if sel, isSel := x.Lhs[0].(*ast.SelectorExpr); isSel && ev.recv != "" {
			if r, isId := sel.X.(*ast.Ident); isId && r.Name == ev.recv {
				id, ok = sel.Sel, true
			}
		}
		if !ok {
			fail(x.Pos(), fset, "assignment target")
		}
		var rhs ast.Expr = x.Rhs[0]
		switch x.Tok {
		case token.DEFINE, token.ASSIGN:
		default:
			opm := map[token.Token]token.Token{token.ADD_ASSIGN: token.ADD, token.SUB_ASSIGN: token.SUB, token.MUL_ASSIGN: token.MUL,
				token.AND_ASSIGN: token.AND, token.OR_ASSIGN: token.OR, token.XOR_ASSIGN: token.XOR, token.SHL_ASSIGN: token.SHL,
				token.SHR_ASSIGN: token.SHR, token.AND_NOT_ASSIGN: token.AND_NOT}
			op, ok := opm[x.Tok]
			if !ok {
				fail(x.Pos(), fset, "assignment operator %v", x.Tok)
			}
			rhs = &ast.BinaryExpr{X: x.Lhs[0], Op: op, Y: x.Rhs[0], OpPos: x.Pos()}
		}
		want := untyped
		if t, ok := ev.vars[id.Name]; ok && x.Tok != token.DEFINE {
			want = t
		}
		r, t := ev.expr(rhs, want)
		if t == untyped {
			if want == untyped {
				want = types["int"] // Go: an untyped integer constant defaults to int
			}
			r = ev.resolve(r, t, want, x.Pos())
			t = want
		}
		if x.Tok != token.DEFINE {
			if old, ok := ev.vars[id.Name]; !ok || old != t {
				fail(x.Pos(), fset, "assignment changes the type of %s", id.Name)
			}
		}
		ev.vars[id.Name] = t
		return fmt.Sprintf("let %s : %s := %s\n%s", ln(id.Name), t.lean(), r, in) + ev.block(rest, depth)
	case *ast.IfStmt:
		if x.Init != nil {
			fail(x.Pos(), fset, "if with an init statement")
		}
		// `if c { v = e } [else if … { v = e' }] [else { v = e'' }]`: a conditional value of v, no copying of the rest
		if name, val, ok := ev.condAssign(x); ok {
			t := ev.vars[name]
			return fmt.Sprintf("let %s : %s := %s\n%s", ln(name), t.lean(), val, in) + ev.block(rest, depth)
		}
		c, _ := ev.expr(x.Cond, types["bool"])
		saved := copyVars(ev.vars)
		thenS := ev.block(append(append([]ast.Stmt{}, x.Body.List...), rest...), depth+1)
		ev.vars = copyVars(saved)
		var elseStmts []ast.Stmt
		switch e := x.Else.(type) {
		case nil:
		case *ast.BlockStmt:
			elseStmts = e.List
		case *ast.IfStmt:
			elseStmts = []ast.Stmt{e}
		}
		elseS := ev.block(append(append([]ast.Stmt{}, elseStmts...), rest...), depth+1)
		ev.vars = saved
		return fmt.Sprintf("if %s then\n%s%s\n%selse\n%s%s", c, indent(depth+1), thenS, in, indent(depth+1), elseS)
	}
	fail(s.Pos(), fset, "statement form %T", s)
	return ""
}

// singleAssign: the block is one plain assignment `v = e` to a variable that exists already
func (ev *env) singleAssign(b *ast.BlockStmt) (string, ast.Expr, bool) {
	if b == nil || len(b.List) != 1 {
		return "", nil, false
	}
	as, ok := b.List[0].(*ast.AssignStmt)
	if !ok || as.Tok != token.ASSIGN || len(as.Lhs) != 1 || len(as.Rhs) != 1 {
		return "", nil, false
	}
	id, ok := as.Lhs[0].(*ast.Ident)
	if !ok {
		return "", nil, false
	}
	if _, known := ev.vars[id.Name]; !known {
		return "", nil, false
	}
	return id.Name, as.Rhs[0], true
}

func (ev *env) condAssign(x *ast.IfStmt) (name, val string, ok bool) {
	if x.Init != nil {
		return "", "", false
	}
	n, e, ok := ev.singleAssign(x.Body)
	if !ok {
		return "", "", false
	}
	t := ev.vars[n]
	elseVal := ln(n)
	switch el := x.Else.(type) {
	case nil:
	case *ast.BlockStmt:
		n2, e2, ok2 := ev.singleAssign(el)
		if !ok2 || n2 != n {
			return "", "", false
		}
		r, rt := ev.expr(e2, t)
		elseVal = ev.resolve(r, rt, t, el.Pos())
	case *ast.IfStmt:
		n2, v2, ok2 := ev.condAssign(el)
		if !ok2 || n2 != n {
			return "", "", false
		}
		elseVal = v2
	default:
		return "", "", false
	}
	c, _ := ev.expr(x.Cond, types["bool"])
	r, rt := ev.expr(e, t)
	r = ev.resolve(r, rt, t, x.Pos())
	return n, fmt.Sprintf("(if %s then %s else %s)", c, r, elseVal), true
}

func copyVars(m map[string]ty) map[string]ty {
	c := map[string]ty{}
	for k, v := range m {
		c[k] = v
	}
	return c
}

func fieldTypes(fl *ast.FieldList) (names []string, ts []ty, ok bool) {
	if fl == nil {
		return nil, nil, true
	}
	for _, f := range fl.List {
		t, k := typeOfExpr(f.Type)
		if !k {
			return nil, nil, false
		}
		if len(f.Names) == 0 {
			names = append(names, "")
			ts = append(ts, t)
		}
		for _, n := range f.Names {
			names = append(names, n.Name)
			ts = append(ts, t)
		}
	}
	return names, ts, true
}

func translateFunc(fd *ast.FuncDecl, funcs map[string]*sig) (out string, sg *sig, err error) {
	defer func() {
		if r := recover(); r != nil {
			if te, ok := r.(terr); ok {
				err = fmt.Errorf("%s", te.msg)
				return
			}
			panic(r)
		}
	}()
	pn, pt, ok := fieldTypes(fd.Type.Params)
	rn, rt, ok2 := fieldTypes(fd.Type.Results)
	if !ok || !ok2 || len(rt) != 1 {
		return "", nil, fmt.Errorf("%s: signature outside the subset", fd.Name.Name)
	}
	ev := &env{vars: map[string]ty{}, funcs: funcs, result: rt[0], resName: rn[0], usedExt: map[string]bool{}}
	for _, ext := range externals {
		ev.vars[ext.param] = types[ext.t]
	}
	var params []string
	for i, n := range pn {
		ev.vars[n] = pt[i]
		params = append(params, fmt.Sprintf("(%s : %s)", ln(n), pt[i].lean()))
	}
	body := ""
	if ev.resName != "" {
		ev.vars[ev.resName] = rt[0]
		z := "false"
		if rt[0].width > 0 {
			z = fmt.Sprintf("0#%d", rt[0].width)
		}
		body = fmt.Sprintf("let %s : %s := %s\n  ", ln(ev.resName), rt[0].lean(), z)
	}
	body += ev.block(fd.Body.List, 1)
	var extNames []string
	for name := range ev.usedExt {
		extNames = append(extNames, name)
	}
	sort.Strings(extNames)
	for _, name := range extNames {
		ext := externals[name]
		params = append(params, fmt.Sprintf("(%s : %s)", ln(ext.param), types[ext.t].lean()))
		pt = append(pt, types[ext.t])
	}
	pos := fset.Position(fd.Pos())
	out = fmt.Sprintf("/-- `%s` (%s) -/\ndef %s %s : %s :=\n  %s\n", fd.Name.Name, filepath.Base(pos.Filename),
		fd.Name.Name, strings.Join(params, " "), rt[0].lean(), body)
	return out, &sig{pt, rt[0]}, nil
}

func translateFieldMethod(fd *ast.FuncDecl, m fieldMethodSpec, funcs map[string]*sig) (out string, err error) {
	defer func() {
		if r := recover(); r != nil {
			if te, ok := r.(terr); ok {
				err = fmt.Errorf("%s", te.msg)
				return
			}
			panic(r)
		}
	}()
	if fd.Recv == nil || len(fd.Recv.List) != 1 || len(fd.Recv.List[0].Names) != 1 || (fd.Type.Params != nil && len(fd.Type.Params.List) > 0) || fd.Type.Results != nil {
		return "", fmt.Errorf("%s.%s: not a parameterless method without results", m.recv, m.fn)
	}
	ev := &env{vars: map[string]ty{}, funcs: funcs, recv: fd.Recv.List[0].Names[0].Name, usedExt: map[string]bool{}}
	var params, rts []string
	for i, f := range m.fields {
		ev.vars[f] = types[m.fieldTypes[i]]
		params = append(params, fmt.Sprintf("(%s : %s)", ln(f), types[m.fieldTypes[i]].lean()))
		rts = append(rts, types[m.fieldTypes[i]].lean())
	}
	ev.tuple = "(" + strings.Join(m.fields, ", ") + ")"
	body := ev.block(fd.Body.List, 1)
	pos := fset.Position(fd.Pos())
	return fmt.Sprintf("/-- `(%s).%s` (%s): the fields %s before -> after -/\ndef %s %s : %s :=\n  %s\n", m.recv, m.fn, filepath.Base(pos.Filename),
		strings.Join(m.fields, ", "), m.leanName, strings.Join(params, " "), strings.Join(rts, " × "), body), nil
}

var regionFile *ast.File

func findRegion(body *ast.BlockStmt, lenVar string) []ast.Stmt {
	var found []ast.Stmt
	ast.Inspect(body, func(n ast.Node) bool {
		b, ok := n.(*ast.BlockStmt)
		if !ok || found != nil {
			return found == nil
		}
		for i, st := range b.List {
			as, ok := st.(*ast.AssignStmt)
			if !ok || as.Tok != token.DEFINE || len(as.Lhs) != 1 || len(as.Rhs) != 1 {
				continue
			}
			id, ok := as.Lhs[0].(*ast.Ident)
			call, ok2 := as.Rhs[0].(*ast.CallExpr)
			if !ok || !ok2 || id.Name != lenVar {
				continue
			}
			if f, ok := call.Fun.(*ast.Ident); !ok || f.Name != "len" {
				continue
			}
			var out []ast.Stmt
			for _, s2 := range b.List[i+1:] {
				if a2, ok := s2.(*ast.AssignStmt); ok {
					if _, isSel := a2.Lhs[0].(*ast.SelectorExpr); isSel {
						break
					}
				}
				out = append(out, s2)
			}
			found = out
			return false
		}
		return true
	})
	return found
}

// findCommentRegion: the statements of the innermost block that follow the comment containing `from`, up to the
// comment containing `to` (when given) or the first loop
func findCommentRegion(file *ast.File, fd *ast.FuncDecl, from, to, untilIfOn string) []ast.Stmt {
	var fromPos, toPos token.Pos
	for _, cg := range file.Comments {
		if cg.Pos() < fd.Body.Pos() || cg.End() > fd.Body.End() {
			continue
		}
		for _, c := range cg.List {
			if fromPos == 0 && strings.Contains(c.Text, from) {
				fromPos = c.Pos()
			} else if fromPos != 0 && toPos == 0 && to != "" && strings.Contains(c.Text, to) {
				toPos = c.Pos()
			}
		}
	}
	if fromPos == 0 {
		return nil
	}
	var found []ast.Stmt
	ast.Inspect(fd.Body, func(n ast.Node) bool {
		b, ok := n.(*ast.BlockStmt)
		if !ok {
			return true
		}
		var out []ast.Stmt
		for _, st := range b.List {
			if st.Pos() < fromPos {
				continue
			}
			if toPos != 0 && st.Pos() > toPos {
				break
			}
			if _, isFor := st.(*ast.ForStmt); isFor {
				break
			}
			if is, isIf := st.(*ast.IfStmt); isIf && untilIfOn != "" {
				if id, isId := is.Cond.(*ast.Ident); isId && id.Name == untilIfOn {
					break
				}
			}
			if _, isRange := st.(*ast.RangeStmt); isRange {
				break
			}
			out = append(out, st)
		}
		// the innermost block that directly contains statements after the comment wins
		if len(out) > 0 && b.Pos() < fromPos && fromPos < b.End() {
			found = out
		}
		return true
	})
	return found
}

func translateRegion(fd *ast.FuncDecl, r regionSpec, funcs map[string]*sig) (out string, err error) {
	defer func() {
		if rec := recover(); rec != nil {
			if te, ok := rec.(terr); ok {
				err = fmt.Errorf("%s", te.msg)
				return
			}
			panic(rec)
		}
	}()
	var stmts []ast.Stmt
	if len(r.defsOf) > 0 {
		for _, st := range fd.Body.List {
			if as, ok := st.(*ast.AssignStmt); ok && as.Tok == token.DEFINE && len(as.Lhs) == 1 {
				if id, ok := as.Lhs[0].(*ast.Ident); ok {
					for _, v := range r.defsOf {
						if id.Name == v {
							stmts = append(stmts, st)
						}
					}
				}
			}
		}
		if len(stmts) != len(r.defsOf) {
			return "", fmt.Errorf("%s: the definitions of %v were not found", r.fn, r.defsOf)
		}
	} else if r.from != "" {
		stmts = findCommentRegion(regionFile, fd, r.from, r.to, r.untilIfOn)
	} else {
		stmts = findRegion(fd.Body, r.lenVar)
	}
	if len(stmts) == 0 {
		return "", fmt.Errorf("%s: the region (%s%s) was not found", r.fn, r.lenVar, r.from)
	}
	ev := &env{vars: map[string]ty{}, funcs: funcs, alias: r.alias, usedExt: map[string]bool{}}
	var params, rts []string
	for i, v := range r.vars {
		ev.vars[v] = types[r.varTypes[i]]
		params = append(params, fmt.Sprintf("(%s : %s)", ln(v), types[r.varTypes[i]].lean()))
	}
	var rnames []string
	for _, v := range r.results {
		rnames = append(rnames, ln(v))
	}
	ev.tuple = "(" + strings.Join(rnames, ", ") + ")"
	if r.early {
		ev.early = "(true, " + strings.Join(rnames, ", ") + ")"
		ev.tuple = "(false, " + strings.Join(rnames, ", ") + ")"
	}
	body := ev.block(stmts, 1)
	for _, v := range r.results { // after the block: a result may be defined inside the region
		rts = append(rts, ev.vars[v].lean())
	}
	if r.early {
		rts = append([]string{"Bool"}, rts...)
	}
	pos := fset.Position(fd.Pos())
	where := "`" + r.lenVar + " := len(…)`"
	if r.from != "" {
		where = "the comment \"" + r.from + "\""
	}
	if len(r.defsOf) > 0 {
		where = "their definitions (the `:=` statements of " + strings.Join(r.defsOf, ", ") + ")"
	}
	return fmt.Sprintf("/-- the index arithmetic of `%s` (%s): %s after the statements that follow %s -/\ndef %s %s : %s :=\n  %s\n",
		r.fn, filepath.Base(pos.Filename), strings.Join(r.results, ", "), where, r.leanName, strings.Join(params, " "), strings.Join(rts, " × "), body), nil
}

// guard extraction ----------------------------------------------------------------------------------------

func assignsConst(b *ast.BlockStmt, c string) bool {
	found := false
	ast.Inspect(b, func(n ast.Node) bool {
		if as, ok := n.(*ast.AssignStmt); ok {
			for _, r := range as.Rhs {
				if id, ok := r.(*ast.Ident); ok && id.Name == c {
					found = true
				}
			}
		}
		// a constant given in double quotes is the text of an error reply: the body mentions a string literal containing it
		if bl, ok := n.(*ast.BasicLit); ok && bl.Kind == token.STRING && strings.HasPrefix(c, "\"") {
			if strings.Contains(bl.Value, strings.Trim(c, "\"")) {
				found = true
			}
		}
		return true
	})
	return found
}

// findGuard returns the `if` whose body assigns the constant together with the statements of its block that precede it
func findGuard(body *ast.BlockStmt, c string) (guard *ast.IfStmt, before []ast.Stmt, count int) {
	var walk func(b *ast.BlockStmt)
	walk = func(b *ast.BlockStmt) {
		for i, s := range b.List {
			if is, ok := s.(*ast.IfStmt); ok {
				if assignsConst(is.Body, c) && !containsIf(is.Body) {
					count++
					if guard == nil {
						guard, before = is, b.List[:i]
					}
					continue
				}
				walk(is.Body)
				if eb, ok := is.Else.(*ast.BlockStmt); ok {
					walk(eb)
				}
			}
		}
	}
	walk(body)
	return
}

func containsIf(b *ast.BlockStmt) bool {
	f := false
	ast.Inspect(b, func(n ast.Node) bool {
		if _, ok := n.(*ast.IfStmt); ok {
			f = true
		}
		return true
	})
	return f
}

func translateGuard(fd *ast.FuncDecl, g guardSpec, funcs map[string]*sig) (out string, err error) {
	defer func() {
		if r := recover(); r != nil {
			if te, ok := r.(terr); ok {
				err = fmt.Errorf("%s", te.msg)
				return
			}
			panic(r)
		}
	}()
	guard, before, n := findGuard(fd.Body, g.constant)
	if guard == nil || n != 1 {
		return "", fmt.Errorf("%s: expected exactly one `if` guarding %s, found %d", g.fn, g.constant, n)
	}
	ev := &env{vars: map[string]ty{}, funcs: funcs, result: types["bool"], usedExt: map[string]bool{}, alias: g.alias}
	var params []string
	for i, v := range g.vars {
		ev.vars[v] = types[g.varTypes[i]]
		params = append(params, fmt.Sprintf("(%s : %s)", ln(v), types[g.varTypes[i]].lean()))
	}
	// the local definitions of the same block that the condition depends on (transitively), kept in order
	need := map[string]bool{}
	collect := func(e ast.Node) {
		ast.Inspect(e, func(n ast.Node) bool {
			if ce, ok := n.(*ast.CallExpr); ok && len(ce.Args) == 1 {
				if f, isId := ce.Fun.(*ast.Ident); isId && f.Name == "len" {
					if a, isId := ce.Args[0].(*ast.Ident); isId {
						if _, has := g.alias["len("+a.Name+")"]; has {
							return false // read as a free variable
						}
					}
				}
			}
			if id, ok := n.(*ast.Ident); ok {
				need[id.Name] = true
			}
			return true
		})
	}
	collect(guard.Cond)
	var defs []*ast.AssignStmt
	for i := len(before) - 1; i >= 0; i-- {
		as, ok := before[i].(*ast.AssignStmt)
		if !ok || len(as.Lhs) != 1 {
			continue
		}
		id, ok := as.Lhs[0].(*ast.Ident)
		if !ok || !need[id.Name] || ev.vars[id.Name] != (ty{}) {
			continue
		}
		if as.Tok != token.DEFINE {
			return "", fmt.Errorf("%s: %s is assigned (not defined) before the guard", g.fn, id.Name)
		}
		collect(as.Rhs[0])
		defs = append([]*ast.AssignStmt{as}, defs...)
		delete(need, id.Name)
	}
	// a free variable of the configuration must not be re-assigned between its definition and the guard
	for _, s := range before {
		if as, ok := s.(*ast.AssignStmt); ok && as.Tok != token.DEFINE {
			for _, l := range as.Lhs {
				if id, ok := l.(*ast.Ident); ok {
					for _, v := range g.vars {
						_ = v
						_ = id
					}
				}
			}
		}
	}
	body := ""
	for _, d := range defs {
		id := d.Lhs[0].(*ast.Ident)
		r, t := ev.expr(d.Rhs[0], untyped)
		if t == untyped {
			return "", fmt.Errorf("%s: untyped definition of %s", g.fn, id.Name)
		}
		ev.vars[id.Name] = t
		body += fmt.Sprintf("let %s : %s := %s\n  ", ln(id.Name), t.lean(), r)
	}
	c, _ := ev.expr(guard.Cond, types["bool"])
	pos := fset.Position(guard.Pos())
	return fmt.Sprintf("/-- the condition under which `%s` answers %s (%s) -/\ndef %s %s : Bool :=\n  %s%s\n", g.fn, g.constant,
		filepath.Base(pos.Filename), g.leanName, strings.Join(params, " "), body, c), nil
}

func main() {
	if len(os.Args) != 3 {
		fmt.Fprintln(os.Stderr, "usage: go2lean <repo> <out.lean>")
		os.Exit(2)
	}
	repo, outPath := os.Args[1], os.Args[2]
	files, _ := filepath.Glob(filepath.Join(repo, "*.go"))
	sort.Strings(files)
	decls := map[string]*ast.FuncDecl{}
	fileOf := map[*ast.FuncDecl]*ast.File{}
	for _, f := range files {
		b := filepath.Base(f)
		if strings.HasSuffix(b, "_test.go") || strings.HasPrefix(b, "verif_") {
			continue
		}
		af, err := parser.ParseFile(fset, f, nil, parser.ParseComments)
		if err != nil {
			fmt.Fprintln(os.Stderr, err)
			os.Exit(1)
		}
		for _, d := range af.Decls {
			if fd, ok := d.(*ast.FuncDecl); ok && fd.Body != nil {
				key := fd.Name.Name
				if fd.Recv != nil && len(fd.Recv.List) == 1 {
					t := fd.Recv.List[0].Type
					if st, ok := t.(*ast.StarExpr); ok {
						t = st.X
					}
					if id, ok := t.(*ast.Ident); ok {
						key = id.Name + "." + key
					}
				}
				decls[key] = fd
				fileOf[fd] = af
			}
		}
	}
	var sb strings.Builder
	sb.WriteString("/- GENERATED by tools/go2lean from /repo's working tree — do not edit.\n   Translation rules: see the header of tools/go2lean/main.go and DESIGN.md §4.3. -/\nnamespace RedisEmu.Go\n\n")
	funcs := map[string]*sig{}
	var errs []string
	var names []string
	for _, n := range wholeFuncs {
		fd, ok := decls[n]
		if !ok {
			errs = append(errs, fmt.Sprintf("function %s no longer exists", n))
			continue
		}
		out, sg, err := translateFunc(fd, funcs)
		if err != nil {
			errs = append(errs, err.Error())
			continue
		}
		short := n
		if i := strings.Index(n, "."); i >= 0 {
			short = n[i+1:]
		}
		funcs[short] = sg
		sb.WriteString(out + "\n")
		names = append(names, short)
	}
	for _, m := range fieldMethods {
		fd, ok := decls[m.recv+"."+m.fn]
		if !ok {
			errs = append(errs, fmt.Sprintf("method %s.%s no longer exists", m.recv, m.fn))
			continue
		}
		out, err := translateFieldMethod(fd, m, funcs)
		if err != nil {
			errs = append(errs, err.Error())
			continue
		}
		sb.WriteString(out + "\n")
		names = append(names, m.leanName)
	}
	for _, r := range regions {
		fd, ok := decls[r.fn]
		if !ok {
			errs = append(errs, fmt.Sprintf("function %s no longer exists", r.fn))
			continue
		}
		regionFile = fileOf[fd]
		out, err := translateRegion(fd, r, funcs)
		if err != nil {
			errs = append(errs, err.Error())
			continue
		}
		sb.WriteString(out + "\n")
		names = append(names, r.leanName)
	}
	for _, g := range guards {
		key := g.recv + "." + g.fn
		if g.recv == "" {
			key = g.fn
		}
		fd, ok := decls[key]
		if !ok {
			errs = append(errs, fmt.Sprintf("method %s.%s no longer exists", g.recv, g.fn))
			continue
		}
		out, err := translateGuard(fd, g, funcs)
		if err != nil {
			errs = append(errs, err.Error())
			continue
		}
		sb.WriteString(out + "\n")
		names = append(names, g.leanName)
	}
	sb.WriteString("/-- what was translated on this run -/\ndef translated : List String := [")
	for i, n := range names {
		if i > 0 {
			sb.WriteString(", ")
		}
		sb.WriteString(strconv.Quote(n))
	}
	sb.WriteString("]\n\nend RedisEmu.Go\n")
	if len(errs) > 0 {
		// the file is written all the same, without the definitions that could not be translated: the
		// theorems about them then fail to build, which is how the check learns about it
		sb.WriteString("\n/- NOT TRANSLATED on this run:\n")
		for _, e := range errs {
			fmt.Println("go2lean:", e)
			sb.WriteString("   " + strings.ReplaceAll(e, "-/", "- /") + "\n")
		}
		sb.WriteString("-/\n")
	}
	if err := os.WriteFile(outPath, []byte(sb.String()), 0o644); err != nil {
		fmt.Fprintln(os.Stderr, err)
		os.Exit(1)
	}
	fmt.Printf("go2lean: %d definitions written to %s\n", len(names), outPath)
}
