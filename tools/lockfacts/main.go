// lockfacts: a fact extractor (go/ast, standard library only) for the locking discipline of the
// emulator's data layer. It is run on /repo's working tree before every Lean build of C08 / C16 and
// writes lean/RedisEmu/LockFacts.lean; the theorems there are re-checked against what the code says now.
//
// Facts, per function of the package (tests and the verif hooks excluded):
//
//	uses      the function touches the state a database lock protects: `….ds.data`, `ds.data`,
//	          `dataObjectNumber`, `waitingClients`, or calls a function that needs the lock held (below)
//	locks     it takes a database lock (`dsc.lock()`, `acquireExclusive()`, `….mu.Lock()` of a data store)
//	          before its first use, and releases it in a `defer` (so it is held until the function returns)
//	needsLock it uses the state without taking the lock itself: every call site must hold it
//
// The extractor then checks the call graph: a function with needsLock is fine iff every one of its call
// sites lies in a function that holds the lock at that point (after its lock call), or in another
// needsLock function. Entry points that use the state without the lock are reported as `unprotected`.
package main

import (
	"fmt"
	"go/ast"
	"go/parser"
	"go/token"
	"os"
	"path/filepath"
	"sort"
	"strings"
)

type site struct {
	pos    token.Pos
	callee string // short name of the called function or method
	recv   string // receiver type guessed from the name of the receiver variable ("" = unknown)
}

// the package names its receivers and variables consistently; this table resolves a method call to its type
var recvTypes = map[string]string{"dsc": "dataStoreCommand", "ddsc": "dataStoreCommand", "ds": "dataStore", "dds": "dataStore",
	"dss": "dataStoreSet", "cs": "clientState", "ctx": "cmdContext", "wt": "waitTable", "waitingClients": "waitTable",
	"eng": "RedisEmu", "cd": "cmdDispatcher", "data": "redisDict", "rd": "redisDict", "cc": "clientCxn", "ts": "testClient"}

func recvOf(parts []string) string {
	if len(parts) < 2 {
		return ""
	}
	return recvTypes[strings.TrimSuffix(parts[len(parts)-2], "()")]
}

type handOver struct{ receiver, value string }

type fn struct {
	handsOver      []handOver
	name           string
	file           string
	lockPos        token.Pos // first lock call (0: none)
	deferred       bool      // an unlock is deferred
	firstUse       token.Pos // first direct use of protected state
	calls          []site
	explicitUnlock token.Pos
	endPos         token.Pos
}

func selName(e ast.Expr) string {
	switch x := e.(type) {
	case *ast.SelectorExpr:
		return selName(x.X) + "." + x.Sel.Name
	case *ast.Ident:
		return x.Name
	case *ast.CallExpr:
		return selName(x.Fun) + "()"
	case *ast.ParenExpr:
		return selName(x.X)
	case *ast.StarExpr:
		return selName(x.X)
	case *ast.IndexExpr:
		return selName(x.X) + "[]"
	}
	return "?"
}

func isLockCall(name string) bool {
	return strings.HasSuffix(name, ".lock") || strings.HasSuffix(name, ".acquireExclusive") ||
		(strings.HasSuffix(name, ".mu.Lock") && (strings.Contains(name, "ds.") || strings.HasPrefix(name, "ds.")))
}

func isUnlockCall(name string) bool {
	return strings.HasSuffix(name, ".unlock") || strings.HasSuffix(name, ".unlockAndUnblock") || strings.HasSuffix(name, ".releaseExclusive") ||
		(strings.HasSuffix(name, ".mu.Unlock") && (strings.Contains(name, "ds.") || strings.HasPrefix(name, "ds.")))
}

func isProtected(name string) bool {
	return strings.HasSuffix(name, "ds.data") || strings.Contains(name, "ds.data.") || name == "ds.data" ||
		strings.HasSuffix(name, ".dataObjectNumber") || strings.HasSuffix(name, ".waitingClients") || strings.Contains(name, ".waitingClients.")
}

var constructors = map[string]bool{"newDataStoreSet": true, "newDataStore": true, "newRedisDict": true}

var visit func(x *fn) func(ast.Node) bool

func init() {
	visit = func(x *fn) func(ast.Node) bool {
		return func(n ast.Node) bool {
			switch v := n.(type) {
			case *ast.IfStmt:
				// `if ctx.multi { … }`: the command runs inside EXEC, which owns the data store for all
				// of its queued commands (fnExec takes it before it dispatches them)
				if selName(v.Cond) == "ctx.multi" {
					if v.Else != nil {
						ast.Inspect(v.Else, visit(x))
					}
					return false
				}
			case *ast.DeferStmt:
				cn := selName(v.Call.Fun)
				if isUnlockCall(cn) {
					x.deferred = true
				}
				// defer func() { … unlock … }()
				if fl, ok := v.Call.Fun.(*ast.FuncLit); ok {
					ast.Inspect(fl.Body, func(m ast.Node) bool {
						if c, ok := m.(*ast.CallExpr); ok && isUnlockCall(selName(c.Fun)) {
							x.deferred = true
						}
						return true
					})
				}
			case *ast.CallExpr:
				cn := selName(v.Fun)
				parts := strings.Split(cn, ".")
				short := parts[len(parts)-1]
				switch {
				case isLockCall(cn):
					if x.lockPos == 0 {
						x.lockPos = v.Pos()
					}
				case isUnlockCall(cn):
					if x.explicitUnlock == 0 {
						x.explicitUnlock = v.Pos()
					}
					// the unlock routines are functions of the package too (unlockAndUnblock touches the
					// wait table before it releases the lock): the lock is held where they are called
					x.calls = append(x.calls, site{v.Pos(), short, recvOf(parts)})
				default:
					x.calls = append(x.calls, site{v.Pos(), short, recvOf(parts)})
				}
				// a function of the package handed over as a value is invoked by the function that receives
				// it (the set algebra workers run inside setOperation / setOperationStore)
				for _, arg := range v.Args {
					if sel, ok := arg.(*ast.SelectorExpr); ok {
						x.handsOver = append(x.handsOver, handOver{short, sel.Sel.Name})
					}
				}
			case *ast.SelectorExpr:
				if isProtected(selName(v)) && x.firstUse == 0 {
					x.firstUse = v.Pos()
				}
			}
			return true
		}
	}
}

func main() {
	repo, out := os.Args[1], os.Args[2]
	fset := token.NewFileSet()
	files, _ := filepath.Glob(filepath.Join(repo, "*.go"))
	sort.Strings(files)
	fns := map[string]*fn{}
	var order []string
	for _, f := range files {
		base := filepath.Base(f)
		if strings.HasSuffix(base, "_test.go") || strings.HasPrefix(base, "verif_") || base == "redisTestClient.go" || base == "realTestClient.go" {
			continue
		}
		af, err := parser.ParseFile(fset, f, nil, 0)
		if err != nil {
			fmt.Fprintln(os.Stderr, err)
			os.Exit(2)
		}
		for _, d := range af.Decls {
			fd, ok := d.(*ast.FuncDecl)
			if !ok || fd.Body == nil {
				continue
			}
			name := fd.Name.Name
			if fd.Recv != nil && len(fd.Recv.List) > 0 {
				name = "(" + strings.TrimPrefix(selName(fd.Recv.List[0].Type), "?") + ")." + name
			}
			x := &fn{name: name, file: base, endPos: fd.Body.End()}
			if constructors[fd.Name.Name] {
				continue // builds an object nobody else can see yet
			}
			ast.Inspect(fd.Body, visit(x))
			fns[name] = x
			order = append(order, name)
		}
	}
	// short name -> functions (methods are called by their short name)
	byShort := map[string][]*fn{}
	for _, n := range order {
		f := fns[n]
		short := n[strings.LastIndex(n, ".")+1:]
		byShort[short] = append(byShort[short], f)
	}
	for _, n := range order {
		for _, h := range fns[n].handsOver {
			if len(byShort[h.value]) == 0 {
				continue // not a function of the package
			}
			for _, g := range byShort[h.receiver] {
				g.calls = append(g.calls, site{g.endPos - 1, h.value, ""})
			}
		}
	}
	resolve := func(c site) []*fn {
		all := byShort[c.callee]
		if c.recv == "" {
			return all
		}
		var out []*fn
		for _, g := range all {
			if strings.HasPrefix(g.name, "("+c.recv+").") {
				out = append(out, g)
			}
		}
		return out
	}
	// needsLock: fixpoint — uses protected state (directly or through a needsLock callee) before/without its own lock
	needs := map[string]bool{}
	why := map[string]string{}
	usesBeforeLock := func(f *fn) bool {
		first := f.firstUse
		reason := "direct use of protected state"
		for _, c := range f.calls {
			for _, g := range resolve(c) {
				if needs[g.name] && (first == 0 || c.pos < first) {
					first = c.pos
					reason = "calls " + g.name
				}
			}
		}
		if first == 0 {
			return false
		}
		if f.lockPos == 0 || first < f.lockPos {
			why[f.name] = reason + " at " + fset.Position(first).String()
			return true
		}
		return false
	}
	for changed := true; changed; {
		changed = false
		for _, n := range order {
			if !needs[n] && usesBeforeLock(fns[n]) {
				needs[n] = true
				changed = true
			}
		}
	}
	// call sites of needsLock functions: held?
	type row struct {
		name, file, kind string
	}
	var rows []row
	called := map[string]bool{}
	for _, n := range order {
		for _, c := range fns[n].calls {
			for _, g := range resolve(c) {
				called[g.name] = true
			}
		}
	}
	for _, n := range order {
		f := fns[n]
		uses := f.firstUse != 0
		for _, c := range f.calls {
			for _, g := range resolve(c) {
				if needs[g.name] {
					uses = true
				}
			}
		}
		if !uses {
			continue
		}
		kind := ""
		switch {
		case needs[n] && called[n]:
			kind = "needsLock" // its callers are checked
		case needs[n]:
			kind = "unprotected" // an entry point that uses the state without the lock
		case f.lockPos != 0 && f.deferred:
			kind = "locksUntilReturn"
		case f.lockPos != 0 && f.explicitUnlock != 0:
			kind = "locksExplicit"
		default:
			kind = "unprotected"
		}
		rows = append(rows, row{n, f.file, kind})
	}
	sort.Slice(rows, func(i, j int) bool { return rows[i].name < rows[j].name })
	var b strings.Builder
	b.WriteString("/- GENERATED by tools/lockfacts from the Go sources in /repo — do not edit -/\nnamespace RedisEmu\n\n")
	b.WriteString("inductive LockKind where\n  | locksUntilReturn   -- takes the database lock before its first use of the protected state, unlock deferred\n  | locksExplicit      -- takes the lock before its first use, releases it with an explicit call\n  | needsLock          -- uses the state without locking; every caller holds the lock at the call (checked by the extractor)\n  | unprotected        -- uses the protected state with no lock held: not allowed\n  deriving Repr, DecidableEq\n\n")
	b.WriteString("/-- every function of the package that touches state protected by a database lock -/\ndef lockFacts : List (String × LockKind) :=\n  [")
	for i, r := range rows {
		if i > 0 {
			b.WriteString(",\n   ")
		}
		fmt.Fprintf(&b, "(%q, .%s)", r.name, r.kind)
	}
	b.WriteString("]\n\nend RedisEmu\n")
	os.WriteFile(out, []byte(b.String()), 0o644)
	cnt := map[string]int{}
	for _, r := range rows {
		cnt[r.kind]++
	}
	fmt.Printf("lockfacts: %d functions use protected state: %v\n", len(rows), cnt)
	if os.Getenv("LOCKFACTS_WHY") != "" {
		for _, r := range rows {
			if r.kind == "needsLock" {
				fmt.Printf("  needsLock %s: %s\n", r.name, why[r.name])
			}
		}
	}
	for _, r := range rows {
		if r.kind == "unprotected" || r.kind == "locksExplicit" {
			fmt.Printf("  %s %s (%s): %s\n", r.kind, r.name, r.file, why[r.name])
		}
	}
}
