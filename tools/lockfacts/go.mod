module verif/tools/lockfacts

go 1.22
