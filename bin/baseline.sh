#!/bin/bash
# Runs the 68 pinned baseline tests of /repo by name with the verif guard OFF.
# (`go test ./...` as a whole hangs in TestRedisUnblock on the pinned tree.)
export GOFLAGS=-mod=mod GOPROXY=off GOSUMDB=off GOTOOLCHAIN=local
cd "${1:-/repo}" || exit 2
RE="^($(paste -sd'|' /verif/bin/baseline_tests.txt))\$"
out=$(go test -vet=off -count=1 -timeout 10m -run "$RE" -v . 2>&1)
rc=$?
pass=$(echo "$out" | grep -c '^--- PASS')
fail=$(echo "$out" | grep -c '^--- FAIL')
echo "baseline: pass=$pass fail=$fail rc=$rc"
if [ $rc -ne 0 ] || [ "$pass" -ne 68 ]; then echo "$out" | grep -v '^\(=== RUN\|--- PASS\|    \)' | tail -40; exit 1; fi
# broader regression: every test of the package except the one that hangs on the pinned tree
if [ "$2" = "full" ]; then
  go test -vet=off -count=1 -timeout 10m -skip 'TestRedisUnblock' . 2>&1 | grep -E '^(--- FAIL|FAIL|ok|panic)' | head -20
fi
