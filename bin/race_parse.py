#!/usr/bin/env python3
"""Parses Go race detector output. One entry per report: signature = sorted pair of the innermost
emulator frames of the two accesses (hook wrappers excluded), plus every emulator function seen in
either stack (used to attribute a report to a recorded finding)."""
import re, sys, json

FRAME = re.compile(r"github\.com/jimsnab/go-redisemu\.(.+)\(\)$")

def reports(text):
    out = []
    for rep in text.split("WARNING: DATA RACE")[1:]:
        rep = rep.split("==================")[0]
        blocks = re.split(r"\n(?=(?:Previous )?(?:[Ww]rite|[Rr]ead|atomic [a-z]+) (?:at|of) )", "\n" + rep)
        tops, funcs = [], set()
        for b in blocks:
            b = b.split("\nGoroutine ")[0]
            if not re.match(r"\s*(?:Previous )?(?:[Ww]rite|[Rr]ead|atomic)", b.strip()):
                continue
            top = None
            for line in b.split("\n"):
                m = FRAME.match(line.strip())
                if m and "Verif" not in m.group(1):
                    funcs.add(m.group(1))
                    if top is None:
                        top = m.group(1)
            tops.append(top or "(outside the emulator)")
        if len(tops) >= 2:
            out.append({"signature": " <-> ".join(sorted(tops[:2])), "functions": sorted(funcs), "text": rep.strip()[:4000]})
    return out

if __name__ == "__main__":
    seen = {}
    for r in reports(open(sys.argv[1]).read()):
        seen.setdefault(r["signature"], r)
    for s in sorted(seen):
        print(s)
